#!/bin/sh
# seed_eval.sh <worktree> <seed-name> <check ids...> : verify a seeded change (suite passes, demo fails with / passes
# without it), run the given checks against the worktree, store everything under /verif/seeded/<seed-name>/
wt=$1; name=$2; shift 2
base=$(cd "$(dirname "$0")" && pwd)
d=/verif/seeded/$name; mkdir -p $d
cd $wt || exit 2
git diff -- hexital > $d/patch.diff
cp demo.py $d/demo.py 2>/dev/null
suite=$(/venv/bin/python -m pytest -q -p no:cacheprovider 2>&1 | tail -1)
/venv/bin/python demo.py > $d/demo_with.txt 2>&1; rc_with=$?
git apply -R $d/patch.diff
/venv/bin/python demo.py > $d/demo_without.txt 2>&1; rc_without=$?
git apply $d/patch.diff
echo "suite: $suite | demo with change rc=$rc_with | demo without rc=$rc_without"
out=/tmp/seedout_$name; mkdir -p $out
res=""
for c in "$@"; do
  s=$(date +%s)
  HEXITAL_REPO=$wt VERIF_OUT=$out $base/check $c --tier quick > $out/$c.log 2>&1; rc=$?
  e=$(date +%s)
  nv=$(grep -c '^VIOLATION' $out/$c.log)
  echo "  check $c rc=$rc violations=$nv $((e-s))s: $(grep '^  obligation' $out/$c.log | head -2 | cut -c1-230)"
  res="$res $c:rc=$rc:violations=$nv"
done
echo "$suite|$rc_with|$rc_without|$res" > $d/result.txt
