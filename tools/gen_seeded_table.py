"""regenerate the table of DESIGN.md section 6 from seeded/*/meta.json (python3 tools/gen_seeded_table.py)"""
import glob
import json
import os
import re

base = os.path.dirname(os.path.dirname(os.path.abspath(__file__)))
rows = []
for f in sorted(glob.glob(os.path.join(base, "seeded", "*", "meta.json"))):
    m = json.load(open(f))
    hist = m.get("history", "") or ""
    note = "first version missed it" if hist.startswith(("missed first", "missed by the first")) else ""
    det = ", ".join(m.get("detected_by", []))
    if not m.get("detected"):
        det, note = "— (float-only)", "quick tier: not detected; thorough tier: reported by the floating-point lemma (C09 run_fp_sqrt)"
    rows.append(f"| {m['id']} | {m['breaks_property']} | {det} | {note} |")
table = "| seeded change | breaks | caught by | note |\n|---|---|---|---|\n" + "\n".join(rows) + "\n"
p = os.path.join(base, "DESIGN.md")
s = open(p).read()
s2 = re.sub(r"\| seeded change \| breaks \| caught by \| note \|\n\|---\|---\|---\|---\|\n(\|.*\n)+", lambda _: table, s)
open(p, "w").write(s2)
print(len(rows), "rows")
