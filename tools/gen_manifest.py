"""Regenerate /verif/MANIFEST.json from the harness META blocks (bounds, stubs, assumptions): python3-vt tools/gen_manifest.py"""
import importlib
import json
import subprocess
import sys

sys.path[:0] = ["/verif", "/repo"]
props = [json.loads(l) for l in open("/verif/properties.jsonl")]
notes = {
    "C01": "batch vs a family of append schedules (incl. gap-filled streams, configuration variants and a Hexital of chained members), all leaves term-compared",
    "C02": "snapshots after every append vs final state and vs a batch over the full list, batch-over-prefix vs batch-over-all; chained Hexital members in both registration orders",
    "C03": "library collapse vs independent right-closed resampler over symbolic integer timestamps (incl. timeframes that do not divide a day)",
    "C04": "library readings vs textbook definitions incl. late-starting symbolic inputs, dotted names, a period change + recalculate, and over live-fed T2 buckets",
    "C05": "library readings vs definitions (std-dev through squares), also under dotted names and over live-fed T2 buckets",
    "C06": "library readings vs definitions (also over live-fed T2 buckets); ADX compositionally under mul/div abstraction with exact refinement",
    "C07": "executed-line count of the real append at several history lengths on every feasible path, bounded by the maximum over all paths at n0 (trending / flat history, one or two candles per append, T1 / fill / HA configurations)",
    "C08": "Hexital member vs standalone twin (object/dict/settings forms, timeframes, HA, fill, lifespan, fill-only over a gapped stream, member timeframe nested on a Hexital timeframe, lower-case timeframe spelling, caller-edited dicts); member names",
    "C09": "every feasible path incl. zero-denominator and negative-sqrt forks; eps rounding; configuration variants; thorough: floating-point error-model lemma for the sqrt domain",
    "C10": "one assertion per named relation under the eps rounding model (+monotone/odd/fixed-point refinement); stored == round(definition) within k roundings; round_value variants",
    "C11": "HA candles, tags, saved raw values and readings vs the recurrence under schedules, with T2 (indicator-, Hexital- and member-level, also starting on a bucket edge) and under a lifespan",
    "C12": "library gap fill vs reference fill over symbolic timestamps (gaps longer than a day, with a rolling lifespan)",
    "C13": "B alone vs B next to A under both orders and purge/recalculate/remove/add of A and a later append; name-relation and shared-timeframe pairs (timeframe spelled in upper / lower case and as TimeFrame member)",
    "C14": "all operation sequences up to the tier's length from the calculated and the never-calculated state, state compared after every op and with batch at the end",
    "C15": "retained window (complete buckets) vs definition over symbolic timestamps; retained readings vs untrimmed twin incl. a density-drop stream with one retained predecessor",
    "C16": "f(c,i)==f(c[:i+1])==f(c,i-N) over symbolic values, missing flags, index and length; wrappers live vs batch (patterns on a timeframe)",
    "C17": "library predicates vs reference predicates; candle geometry also after a merge; pattern witnesses/counter-witnesses with 2x margins; shift/scale invariance with symbolic factor",
    "C18": "process time zone as a symbolic variable (all quarter-hour offsets; DST rule zone with CPython's mktime algorithm), fill off/on; datetime and ISO-string timestamps",
    "C19": "read-only calls bracketed by deep term-level snapshots; 9 input encodings x 3 hosts (prices may be 0); every Hexital member's candles vs a stand-alone manager of its timeframe",
    "C20": "every access path vs direct inspection over symbolic values and every index, also at every step of live histories and with a coarser Hexital timeframe",
}
import glob
_metas = [json.load(open(f)) for f in glob.glob("/verif/seeded/*/meta.json")]
nseed, ndet = len(_metas), sum(1 for x in _metas if x.get("detected"))
nfix = int(subprocess.run(["git", "-C", "/repo", "log", "--oneline", "80fc51a..HEAD"], capture_output=True, text=True).stdout.count("\n"))
checks = []
for p in props:
    pid = p["id"]
    mod = importlib.import_module("harness." + pid)
    b = mod.META["bounds"]
    checks.append(dict(
        property_id=pid, quick_cmd=f"./check {pid} --tier quick", thorough_cmd=f"./check {pid} --tier thorough",
        evidence_file=f"/verif/evidence/{pid}.json", replay_cmd_template=f"./check {pid} --replay {{path}}", engine="symx",
        level_claimed=dict(category="model_checking",
                           text=f"Bounded symbolic model checking of the real Hexital code: {notes[pid]}. Within the stated bounds z3 decides every assertion for all input values of every feasible path (unsat = holds, sat = concrete counterexample replayed on the unmodified library before it is reported); nothing outside the bounds is claimed. Quick bound: {b['quick']}. Thorough bound: {b['thorough']}.",
                           design_ref="DESIGN.md §4 " + pid),
        level_note="Trusted base: z3 5.1, the shadow-value engine /verif/symx (self-validated every run: pinned-variable symbolic run in IEEE doubles vs plain float run of the real code under /venv/bin/python), CPython. Assumes: " + "; ".join(mod.META.get("stubs", [])[:4]) + ". " + "; ".join(mod.META.get("assumptions", [])[:3]),
        technique="symbolic execution of the real Python code on z3 shadow values (path forking at branches) + SMT decision of each assertion per path, counterexample replay",
    ))
m = {"version": 1, "setup_cmd": "./setup.sh",
     "hooks": {"guard": "HEXITAL_VERIF", "enable": "no source hooks exist: the checks import /repo's current working tree under python3-vt and install value shims (float/max/min/sqrt/datetime/timedelta module globals) from outside; HEXITAL_VERIF is reserved and unused",
               "baseline_off_cmd": "cd /repo && /venv/bin/python -m pytest -ra -q -p no:cacheprovider --timeout=900 --continue-on-collection-errors", "source_commits": [], "add_only": True},
     "engines": [{"name": "symx", "path": "/verif/symx", "serves_properties": [p["id"] for p in props],
                  "kind_free_text": "shadow-value symbolic executor for Python (float/bool/datetime subclasses carrying z3 terms, DFS over branch decisions by re-execution) with z3 tiers (incremental -> fresh nlsat), abstraction refinement for products/quotients and rounding, floating-point error model, concrete replay twin"}],
     "checks": checks,
     "notes": f"All 20 properties are decided with the same technique. {nfix} genuine defects found by these checks on the pinned tree were repaired by minimal 'fix:' commits in /repo (listed as fixed: entries in /verif/known_findings.json); no open known finding remains. {nseed} seeded changes from independent sub-agents are kept under /verif/seeded ({ndet} detected by the quick tier; the remaining float-only one by the thorough tier of C09). Exit codes: 0 ok, 1 reproduced VIOLATION, 2 harness error.",
     "not_applicable": []}
json.dump(m, open("/verif/MANIFEST.json", "w"), indent=1)
import jsonschema
jsonschema.validate(m, json.load(open("/root/.vp/MANIFEST.schema.json")))
print("MANIFEST.json regenerated and valid;", nfix, "fix commits")
