#!/bin/sh
# convenience: run every check of a tier in sequence, print one summary line each
tier=${1:-quick}
cd "$(dirname "$0")" || exit 2
for p in C01 C02 C03 C04 C05 C06 C07 C08 C09 C10 C11 C12 C13 C14 C15 C16 C17 C18 C19 C20; do
  s=$(date +%s)
  ./check $p --tier $tier > /tmp/verif_$p.log 2>&1
  rc=$?
  e=$(date +%s)
  echo "$p rc=$rc $((e-s))s $(grep "^\[$p" /tmp/verif_$p.log | cut -c1-220)"
  grep -E "^(VIOLATION|KNOWN-FINDING|HARNESS-ERROR)" /tmp/verif_$p.log | head -5
done
