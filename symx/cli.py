import argparse
import json
import os
import sys


def main():
    ap = argparse.ArgumentParser()
    ap.add_argument("prop")
    ap.add_argument("--tier", default=os.environ.get("VERIF_TIER", "quick"))
    ap.add_argument("--jobs", type=int, default=None)
    ap.add_argument("--only", default=None)
    ap.add_argument("--replay", default=None)
    ap.add_argument("-v", action="store_true")
    a = ap.parse_args()
    from symx import run
    if a.replay:
        sc = json.load(open(a.replay))
        out, err = run.run_replay_file(a.replay, tz=sc.get("tz", "UTC"), observe=True)
        print(json.dumps(out, indent=1))
        labels = [l for l, _ in (out or {}).get("failures", [])]
        if sc.get("label") in labels:
            print(f"VIOLATION property={sc['property']} replay={a.replay}")
            sys.exit(1)
        sys.exit(0)
    seed = int(os.environ.get("VERIF_SEED", "0") or 0)
    sys.exit(run.main(a.prop, a.tier, a.jobs, seed, a.only, a.v))


if __name__ == "__main__":
    main()
