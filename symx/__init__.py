"""symx: shadow-value symbolic execution of the real Hexital code (see /verif/DESIGN.md §2).
Import `symx.core` only under python3-vt (needs z3); `symx.concrete` runs anywhere."""
