"""Symbolic harness context: declares inputs as z3 variables, turns harness assertions into solver
queries over the current path condition, extracts models as replayable scenarios."""
from __future__ import annotations

import os
import time
import traceback
from datetime import datetime, timedelta
from fractions import Fraction

import z3

from . import core, symtime
from .core import Engine, PathAbort, SymBool, SymNum, Unsupported, lift
from .symtime import SymDT

REPO = os.environ.get("HEXITAL_REPO", "/repo")


def exc_sig(e: BaseException) -> str:
    """ExcType@file:function of the innermost frame inside the library."""
    tb = traceback.extract_tb(e.__traceback__)
    where = "?"
    for fr in tb:
        fn = fr.filename
        if "/hexital/" in fn and "/verif/" not in fn:
            where = "hexital/" + fn.split("/hexital/", 1)[1] + ":" + fr.name
    return f"{type(e).__name__}@{where}"


class Collector:
    """per obligation, across paths"""

    def __init__(self, ob):
        self.ob = ob
        self.asserts = 0  # non-trivial assertion instances reached
        self.discharged = 0  # solver said unsat (holds on this path for all values)
        self.structural = 0  # equalities discharged by pointer-equal terms (float-exact)
        self.trivial = 0
        self.inconclusive = []  # labels with unknown
        self.candidates = {}  # label -> list of scenarios (not yet reproduced)
        self.reproduced = {}  # label -> (scenario, replay output)
        self.unreproduced = {}  # label -> count
        self.witness = None  # inputs of the first completed path
        self.witness_obs = None
        self.notes = []
        self.reached = set()
        self.records = []  # (inputs, payload) per path, for cross-path obligations (C07)


def _tobool(c):
    if isinstance(c, SymBool):
        return c.t
    if isinstance(c, SymNum):
        return c.t != 0
    if z3.is_expr(c):
        return c
    return z3.BoolVal(bool(c))


class SymCtx:
    symbolic = True

    def __init__(self, eng: Engine, col: Collector, params, replayer=None, pinned=None):
        self.eng = eng
        self.col = col
        self.params = params
        self.replayer = replayer
        self.pinned_inputs = pinned
        self.pinned = pinned is not None
        self.observations = []
        self.decl = []  # (name, kind, term)

    # ------------------------------------------------------------ inputs
    def _declare(self, name, kind, term):
        self.decl.append((name, kind, term))

    def real(self, name, lo=None, hi=None, lo_strict=False):
        if self.pinned:
            from .concrete import parse_num
            raw = self.pinned_inputs[name]
            fr = Fraction(raw) if isinstance(raw, str) else Fraction(raw)
            # the concrete twin converts to float first: pin to the same float value
            fr = Fraction(float(fr))
            t = z3.RealVal(fr)
            self._declare(name, "real", t)
            return SymNum(t)
        v = z3.Real(name)
        self._declare(name, "real", v)
        if lo is not None:
            self.eng.solver.add(v > lo if lo_strict else v >= lo)
        if hi is not None:
            self.eng.solver.add(v <= hi)
        return SymNum(v)

    def symint(self, name, lo, hi):
        if self.pinned:
            t = z3.IntVal(int(Fraction(str(self.pinned_inputs[name]))))
            self._declare(name, "int", t)
            return SymNum(t)
        v = z3.Int(name)
        self._declare(name, "int", v)
        self.eng.solver.add(v >= lo, v <= hi)
        return SymNum(v)

    def integer(self, name, lo, hi):
        """bounded symbolic int, concretised by forking (the solver decides which values are feasible)"""
        if self.pinned:
            val = int(Fraction(str(self.pinned_inputs[name])))
            self._declare(name, "int", z3.IntVal(val))
            return val
        v = z3.Int(name)
        self._declare(name, "int", v)
        self.eng.solver.add(v >= lo, v <= hi)
        for val in range(lo, hi):
            if self.eng.branch(v == val):
                return val
        self.eng.assume(v == hi)
        return hi

    def concretize(self, x, lo, hi):
        """fork over the feasible values of an integer-valued term within [lo, hi]"""
        if not isinstance(x, SymNum):
            return int(x)
        t = x.t
        if self.pinned:
            v = z3.simplify(t)
            return v.as_long() if z3.is_int_value(v) else int(Fraction(v.numerator_as_long(), v.denominator_as_long()))
        for val in range(lo, hi):
            if self.eng.branch(t == val):
                return val
        self.assume(t == hi)
        return hi

    def boolean(self, name):
        if self.pinned:
            raw = self.pinned_inputs[name]
            val = raw.lower() in ("true", "1") if isinstance(raw, str) else bool(raw)
            self._declare(name, "bool", z3.BoolVal(val))
            return val
        v = z3.Bool(name)
        self._declare(name, "bool", v)
        return self.eng.branch(v)

    def time(self, name, lo=0, hi=4 * 10 ** 9):
        return SymDT(self.symint(name, lo, hi).t)

    def const_time(self, seconds):
        return symtime.EPOCH + timedelta(seconds=seconds)

    # ------------------------------------------------------------ logic
    def assume(self, cond):
        c = _tobool(cond)
        if z3.is_true(c):
            return
        if z3.is_false(c):
            raise PathAbort()
        self.eng.assume(c)
        if self.eng.check() == "unsat":
            raise PathAbort()

    def note(self, text):
        self.eng.note(text)

    def _scenario(self, model, label, detail):
        inputs = {}
        for name, kind, term in self.decl:
            v = model.eval(term, model_completion=True)
            if kind == "bool":
                inputs[name] = "true" if z3.is_true(v) else "false"
            elif kind == "int":
                inputs[name] = str(v.as_long())
            else:
                if z3.is_algebraic_value(v):
                    v = v.approx(20)
                inputs[name] = str(Fraction(v.numerator_as_long(), v.denominator_as_long()))
        return {"label": label, "detail": str(detail)[:400] if detail is not None else "", "inputs": inputs}

    def _grid_constraints(self, denom):
        cs = []
        for name, kind, term in self.decl:
            if kind == "real" and not z3.is_rational_value(term):
                k = z3.Int(f"grid!{name}")
                cs.append(term * denom == z3.ToReal(k))
        return cs

    def _violation(self, label, neg, detail):
        """neg: z3 Bool (negated assertion) already known satisfiable with pc -> candidate(s)"""
        col = self.col
        if label in col.reproduced:
            return
        if len(col.reproduced) >= 4:
            # this obligation already has four reproduced violations: further failing assertions are counted, not replayed
            col.not_replayed = getattr(col, "not_replayed", 0) + 1
            return
        model = self.eng.model()
        tries = [self._scenario(model, label, detail)]
        if self.replayer is None:
            col.candidates.setdefault(label, []).append(tries[0])
            return
        if col.unreproduced.get(label, 0) >= 6:
            return
        for attempt in range(3):
            if attempt > 0:
                # ask for inputs on a dyadic grid: exactly representable as floats
                denom = 64 if attempt == 1 else 4
                extra = ([neg] if neg is not None else []) + self._grid_constraints(denom)
                r = self.eng.check(*extra, timeout_ms=3000)
                if r != "sat":
                    continue
                sc = self._scenario(self.eng.model(), label, detail)
            else:
                sc = tries[0]
            ok, out, path = self.replayer(sc)
            if ok:
                col.reproduced[label] = (sc, out, path)
                return
        col.unreproduced[label] = col.unreproduced.get(label, 0) + 1
        col.candidates.setdefault(label, []).append(tries[0])

    def require(self, label, cond, detail=None):
        col = self.col
        c = _tobool(cond)
        c = z3.simplify(c) if self.pinned else c
        if z3.is_true(c):
            col.trivial += 1
            return True
        col.asserts += 1
        if label in col.reproduced:
            return False
        if z3.is_false(c):
            r = self.eng.check()
            neg = None
        else:
            neg = z3.Not(c)
            r = self.eng.check(neg)
        if r == "sat" and self.eng.nl_uf and self.eng.uf_apps:
            # the mismatch was found under uninterpreted mul/div: re-decide with their exact meaning
            # (axioms for exactly the applications built on this path), fresh nlsat solver
            axioms = list(self.eng.uf_apps.values())
            extra = axioms + ([neg] if neg is not None else [])
            r = self.eng.check(*extra, fresh_only=True)
            col.refined = getattr(col, "refined", 0) + 1
            if r == "sat":
                neg = z3.And(*extra)
        if r == "sat" and self.eng.round_mode == "eps" and len(self.eng.rnd_cache) > 1:
            # the eps model only bounds each rounding error; real rounding is also monotone and odd.
            # Re-decide with those axioms over the round() applications of this path.
            ax = self.eng.rounding_axioms()
            extra = ax + ([neg] if neg is not None else [])
            r2 = self.eng.check(*extra, fresh_only=True)
            col.refined = getattr(col, "refined", 0) + 1
            if r2 != "sat":
                r = r2
            else:
                neg = z3.And(*extra)
        if r == "unsat":
            col.discharged += 1
            return True
        if r == "unknown":
            col.inconclusive.append(label)
            return True
        self._violation(label, neg, detail)
        return False

    def fail(self, label, detail=None):
        return self.require(label, z3.BoolVal(False), detail)

    def implies(self, label, a, b, detail=None):
        return self.require(label, z3.Implies(_tobool(a), _tobool(b)), detail)

    def close(self, label, a, b, tol):
        if a is None or b is None:
            return self.require(label, a is None and b is None, f"None-ness differs: {a!r} vs {b!r}")
        ta, tb = core._coerce(lift(a), lift(b))
        if ta.eq(tb):
            self.col.structural += 1
            return True
        d = ta - tb
        tt = core._real(lift(tol))
        return self.require(label, z3.And(d <= tt, -d <= tt), f"{a!r} vs {b!r}")

    def sqrt(self, x):
        return core.sym_sqrt(x)

    def equal(self, label, a, b):
        """deep equality of two snapshots. Shape differences are definite violations of the path;
        numeric leaves are compared as terms (pointer-equal => float-exact) else by the solver."""
        diffs = []
        shape = _collect(a, b, "", diffs, self.col)
        if shape is not None:
            return self.fail(label, shape)
        if not diffs:
            return True
        neg = z3.Or([d[0] for d in diffs]) if len(diffs) > 1 else diffs[0][0]
        return self.require(label, z3.Not(neg), "differs at " + ", ".join(d[1] for d in diffs[:4]))

    def observe(self, label, value):
        self.observations.append((label, value))

    def record(self, payload):
        """remember a per-path measurement together with a witness of the path (cross-path checks in finalize)"""
        if self.eng.check() == "sat":
            sc = self._scenario(self.eng.model(), "record", None)
            self.col.records.append((sc["inputs"], payload))

    # term helpers for reference definitions
    def ite(self, c, a, b):
        if isinstance(c, (SymBool, SymNum)) or z3.is_expr(c):
            ta, tb = core._coerce(lift(a), lift(b))
            return SymNum(z3.If(_tobool(c), ta, tb))
        return a if c else b

    def max(self, *xs):
        return xs[0] if len(xs) == 1 else core.sym_max(*xs)

    def min(self, *xs):
        return xs[0] if len(xs) == 1 else core.sym_min(*xs)

    def abs(self, x):
        return abs(x)

    def sec_of(self, dt):
        return SymNum(symtime.secs(dt))

    def floordiv(self, a, c):
        return a // c if isinstance(a, SymNum) else a // c

    def ceildiv(self, a, c):
        return -((-a) // c)


def _leafkind(x):
    if x is None:
        return "none"
    if isinstance(x, (SymBool, bool)):
        return "bool"
    if isinstance(x, datetime):
        return "time"
    if isinstance(x, (SymNum, int, float)):
        return "num"
    return "other"


def _collect(a, b, path, diffs, col):
    """returns a shape-mismatch description or None; appends (z3 disequality, path) to diffs"""
    if isinstance(a, dict) and isinstance(b, dict):
        if set(a.keys()) != set(b.keys()):
            return f"{path}: keys {sorted(map(str, a))} vs {sorted(map(str, b))}"
        for k in a:
            s = _collect(a[k], b[k], f"{path}.{k}", diffs, col)
            if s is not None:
                return s
        return None
    if isinstance(a, (list, tuple)) and isinstance(b, (list, tuple)):
        if len(a) != len(b):
            return f"{path}: length {len(a)} vs {len(b)}"
        for i, (x, y) in enumerate(zip(a, b)):
            s = _collect(x, y, f"{path}[{i}]", diffs, col)
            if s is not None:
                return s
        return None
    ka, kb = _leafkind(a), _leafkind(b)
    if ka != kb:
        return f"{path}: {a!r} vs {b!r}"
    if ka == "none":
        return None
    if ka == "bool":
        ta = a.t if isinstance(a, SymBool) else z3.BoolVal(a)
        tb = b.t if isinstance(b, SymBool) else z3.BoolVal(b)
        if ta.eq(tb):
            col.structural += 1
            return None
        if z3.is_true(ta) and z3.is_false(tb) or z3.is_false(ta) and z3.is_true(tb):
            return f"{path}: {a!r} vs {b!r}"
        diffs.append((ta != tb, path))
        return None
    if ka == "time":
        ta, tb = symtime.secs(a), symtime.secs(b)
        if ta.eq(tb):
            col.structural += 1
            return None
        if z3.is_int_value(ta) and z3.is_int_value(tb):
            return f"{path}: {a!r} vs {b!r}"
        diffs.append((ta != tb, path))
        return None
    if ka == "num":
        ta, tb = core._coerce(lift(a), lift(b))
        if ta.eq(tb):
            col.structural += 1
            return None
        if core._is_const(ta) and core._is_const(tb):
            if core._const_frac(ta) == core._const_frac(tb):
                return None
            return f"{path}: {a!r} vs {b!r}"
        diffs.append((ta != tb, path))
        return None
    if a == b:
        return None
    return f"{path}: {a!r} vs {b!r}"


def eval_obs(model, value):
    """evaluate an observed (nested) value under a model -> plain python"""
    if isinstance(value, dict):
        return {str(k): eval_obs(model, v) for k, v in value.items()}
    if isinstance(value, (list, tuple)):
        return [eval_obs(model, v) for v in value]
    if isinstance(value, SymBool):
        v = model.eval(value.t, model_completion=True) if model is not None else z3.simplify(value.t)
        return bool(z3.is_true(v))
    if isinstance(value, SymNum):
        v = model.eval(value.t, model_completion=True) if model is not None else z3.simplify(value.t)
        if z3.is_int_value(v):
            return v.as_long()
        if z3.is_rational_value(v):
            return float(Fraction(v.numerator_as_long(), v.denominator_as_long()))
        if z3.is_algebraic_value(v):
            v = v.approx(20)
            return float(Fraction(v.numerator_as_long(), v.denominator_as_long()))
        return f"<non-constant {v}>"
    if isinstance(value, SymDT):
        v = model.eval(value.t, model_completion=True) if model is not None else z3.simplify(value.t)
        return (symtime.EPOCH + timedelta(seconds=v.as_long())).isoformat() if z3.is_int_value(v) else f"<non-constant {v}>"
    if isinstance(value, datetime):
        return value.isoformat()
    if isinstance(value, float) and value != value:
        return "nan"
    return value
