"""Concrete twin of the symbolic context: the SAME harness function is run with plain python
floats / datetimes taken from a solver model (or a fixture), against the unmodified library.
No z3 import here: this file runs under /venv/bin/python for replays."""
from __future__ import annotations

import math
from datetime import datetime, timedelta
from fractions import Fraction

EPOCH = datetime(1970, 1, 1)


class InvalidScenario(Exception):
    """inputs do not satisfy the harness' assumptions (cannot count as a reproduction)"""


def parse_num(s):
    if isinstance(s, (int, float)):
        return s
    if "/" in s:
        return float(Fraction(s))
    return float(s)


class ConcreteCtx:
    symbolic = False
    pinned = False

    def __init__(self, inputs, params=None):
        self.inputs = inputs
        self.params = params or {}
        self.failures = []  # (label, detail)
        self.observations = []
        self.used = []

    # ---- inputs
    def _get(self, name):
        if name not in self.inputs:
            raise InvalidScenario(f"scenario lacks input {name}")
        self.used.append(name)
        return self.inputs[name]

    def real(self, name, lo=None, hi=None, lo_strict=False):
        v = parse_num(self._get(name))
        v = float(v)
        if lo is not None and (v < lo or (lo_strict and v <= lo)):
            raise InvalidScenario(f"{name}={v} below {lo}")
        if hi is not None and v > hi:
            raise InvalidScenario(f"{name}={v} above {hi}")
        return v

    def integer(self, name, lo, hi):
        v = int(Fraction(str(self._get(name))))
        if not lo <= v <= hi:
            raise InvalidScenario(f"{name}={v} outside [{lo},{hi}]")
        return v

    def concretize(self, x, lo, hi):
        v = int(x)
        if not lo <= v <= hi:
            raise InvalidScenario(f"value {v} outside [{lo},{hi}]")
        return v

    def boolean(self, name):
        v = self._get(name)
        if isinstance(v, str):
            v = v.lower() in ("true", "1")
        return bool(v)

    def symint(self, name, lo, hi):
        return self.integer(name, lo, hi)

    def time(self, name, lo=0, hi=4 * 10 ** 9):
        return EPOCH + timedelta(seconds=self.integer(name, lo, hi))

    def const_time(self, seconds):
        return EPOCH + timedelta(seconds=seconds)

    # ---- logic
    def assume(self, cond):
        if not bool(cond):
            raise InvalidScenario("assumption violated")

    def require(self, label, cond, detail=None):
        if not bool(cond):
            self.failures.append((label, detail if detail is not None else ""))
            return False
        return True

    def fail(self, label, detail=None):
        self.failures.append((label, detail if detail is not None else ""))

    def close(self, label, a, b, tol):
        if a is None or b is None:
            return self.require(label, a is None and b is None, f"{a!r} vs {b!r}")
        return self.require(label, abs(a - b) <= tol, f"{a!r} vs {b!r} (tol {tol})")

    def equal(self, label, a, b):
        bad = _first_diff(a, b, "")
        if bad is not None:
            self.failures.append((label, bad))
            return False
        return True

    def implies(self, label, a, b, detail=None):
        return self.require(label, (not bool(a)) or bool(b), detail)

    def observe(self, label, value):
        self.observations.append((label, value))

    def record(self, payload):
        self.observations.append(("record", payload))

    # helpers usable by harnesses for terms
    def ite(self, c, a, b):
        return a if c else b

    def max(self, *xs):
        return max(xs)

    def min(self, *xs):
        return min(xs)

    def abs(self, x):
        return abs(x)

    def sqrt(self, x):
        return math.sqrt(x)

    def is_none(self, x):
        return x is None

    def note(self, text):
        pass

    def sec_of(self, dt):
        d = dt - EPOCH
        return d.days * 86400 + d.seconds

    def floordiv(self, a, c):
        return a // c

    def ceildiv(self, a, c):
        return -((-a) // c)


def _first_diff(a, b, path):
    if isinstance(a, dict) and isinstance(b, dict):
        if list(a.keys()) != list(b.keys()) and set(a.keys()) != set(b.keys()):
            return f"{path}: keys {sorted(map(str, a))} vs {sorted(map(str, b))}"
        for k in a:
            d = _first_diff(a[k], b[k], f"{path}.{k}")
            if d is not None:
                return d
        return None
    if isinstance(a, (list, tuple)) and isinstance(b, (list, tuple)):
        if len(a) != len(b):
            return f"{path}: length {len(a)} vs {len(b)}"
        for i, (x, y) in enumerate(zip(a, b)):
            d = _first_diff(x, y, f"{path}[{i}]")
            if d is not None:
                return d
        return None
    if a is None or b is None:
        return None if (a is None and b is None) else f"{path}: {a!r} vs {b!r}"
    if isinstance(a, bool) or isinstance(b, bool):
        return None if (a == b) else f"{path}: {a!r} vs {b!r}"
    if isinstance(a, float) and isinstance(b, float) and math.isnan(a) and math.isnan(b):
        return None
    return None if a == b else f"{path}: {a!r} vs {b!r}"
