"""Replay a scenario (solver model -> plain floats / datetimes) against the UNMODIFIED library.
Runs under /venv/bin/python with no shim installed and no z3: the same harness function is executed
with a ConcreteCtx, and the concrete form of the same assertions is evaluated.
stdout (last line): JSON {failures:[[label,detail]..], observations:[..], exception, invalid}"""
import importlib
import json
import os
import sys
import time
import traceback

VERIF = os.path.dirname(os.path.dirname(os.path.abspath(__file__)))
REPO = os.environ.get("HEXITAL_REPO", "/repo")
if hasattr(sys, "set_int_max_str_digits"):
    sys.set_int_max_str_digits(0)      # model values may be rationals with thousands of digits


def jsonable(x):
    from datetime import datetime
    if isinstance(x, dict):
        return {str(k): jsonable(v) for k, v in x.items()}
    if isinstance(x, (list, tuple)):
        return [jsonable(v) for v in x]
    if isinstance(x, datetime):
        return x.isoformat()
    if isinstance(x, float) and x != x:
        return "nan"
    if isinstance(x, (int, float, str, bool)) or x is None:
        return x
    return repr(x)


def replay(path, observe=False):
    sc = json.load(open(path))
    os.environ["TZ"] = sc.get("tz", os.environ.get("TZ", "UTC"))
    time.tzset()
    for p in (VERIF, REPO):
        if p not in sys.path:
            sys.path.insert(0, p)
    from symx.concrete import ConcreteCtx, InvalidScenario
    mod = importlib.import_module("harness." + sc["property"])
    fn = getattr(mod, sc["fn"])
    ctx = ConcreteCtx(sc["inputs"], sc.get("params"))
    out = dict(failures=[], observations=[], exception=None, invalid=None)
    try:
        fn(ctx, sc.get("params") or {})
    except InvalidScenario as e:
        out["invalid"] = str(e)
    except Exception as e:
        tb = traceback.extract_tb(e.__traceback__)
        where = "?"
        for fr in tb:
            if "/hexital/" in fr.filename and "/verif/" not in fr.filename:
                where = "hexital/" + fr.filename.split("/hexital/", 1)[1] + ":" + fr.name
        sig = f"{type(e).__name__}@{where}"
        out["exception"] = sig
        if where != "?":
            ctx.failures.append(("raises:" + sig, repr(e)[:200]))
        else:
            out["harness_error"] = "".join(traceback.format_exception(type(e), e, e.__traceback__))[-1200:]
    out["failures"] = [[l, str(d)[:400]] for l, d in ctx.failures]
    if observe:
        out["observations"] = jsonable(ctx.observations)
    return sc, out


if __name__ == "__main__":
    sc, out = replay(sys.argv[1], observe="--observe" in sys.argv)
    if "--human" in sys.argv:
        print(json.dumps(out, indent=1))
    print(json.dumps(out))
