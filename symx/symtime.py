"""Symbolic datetime: a datetime subclass carrying an Int term = wall-clock seconds since 1970-01-01
(naive). `timestamp()` / `fromtimestamp()` go through the process UTC offset TZ_OFF, a z3 Int term
(None = UTC), which is how C18 makes the time zone a symbolic variable."""
from __future__ import annotations

from datetime import datetime, timedelta

import z3

from . import core
from .core import SymBool, SymNum, Unsupported

EPOCH = datetime(1970, 1, 1)
TZ_OFF = [None]  # None (UTC) or an object with to_epoch(wall_term) / to_wall(epoch_term)


class FixedZone:
    """fixed UTC offset (z3 Int term or int), seconds east of UTC"""

    def __init__(self, off):
        self.off = off

    def to_epoch(self, wall):
        return wall - self.off

    def to_wall(self, epoch):
        return epoch + self.off


class RuleZone:
    """zone with standard offset `std` and +3600 between epoch instants t_on <= u < t_off (one DST season).
    to_epoch follows CPython's datetime._mktime algorithm for naive datetimes with fold=0 exactly."""

    def __init__(self, std, t_on, t_off):
        self.std, self.t_on, self.t_off = std, t_on, t_off

    def off(self, u):
        return self.std + z3.If(z3.And(u >= self.t_on, u < self.t_off), z3.IntVal(3600), z3.IntVal(0))

    def to_wall(self, epoch):
        return epoch + self.off(epoch)

    def to_epoch(self, t):
        local = lambda u: u + self.off(u)
        a = local(t) - t
        u1 = t - a
        t1 = local(u1)
        u2a = u1 - 86400
        b_found = local(u2a) - u2a
        b = z3.If(t1 == t, b_found, t1 - u1)
        u2 = t - b
        t2 = local(u2)
        rest = z3.If(t2 == t, u2, z3.If(t1 == t, u1, z3.If(u1 > u2, u1, u2)))
        return z3.If(z3.And(t1 == t, a == b_found), u1, rest)



def _td_secs(td: timedelta) -> int:
    if td.microseconds:
        raise Unsupported("sub-second timedelta")
    return td.days * 86400 + td.seconds


def secs(x):
    if isinstance(x, SymDT):
        return x.t
    if isinstance(x, datetime):
        d = x.replace(microsecond=0) - EPOCH
        return z3.IntVal(d.days * 86400 + d.seconds)
    return None


class SymDT(datetime):
    def __new__(cls, t):
        o = datetime.__new__(cls, 2000, 1, 1)
        o.t = t
        return o

    def __deepcopy__(self, memo):
        return self

    def __copy__(self):
        return self

    def __reduce_ex__(self, p):
        raise Unsupported("pickle SymDT")

    def __repr__(self):
        s = self.t.sexpr()
        return f"SymDT({s if len(s) <= 120 else s[:120] + '...'})"

    __str__ = __repr__

    def __hash__(self):
        return self.t.get_id()

    def replace(self, **kw):
        if set(kw) == {"microsecond"} and kw["microsecond"] == 0:
            return self
        if set(kw) == {"tzinfo"} and kw["tzinfo"] is None:
            return self
        raise Unsupported(f"datetime.replace({kw})")

    @property
    def tzinfo(self):
        return None

    # calendar fields of the wall-clock value (the inherited ones belong to the dummy base object: never expose them)
    @property
    def second(self):
        return SymNum(self.t % 60)

    @property
    def minute(self):
        return SymNum((self.t / 60) % 60)

    @property
    def hour(self):
        return SymNum((self.t / 3600) % 24)

    @property
    def microsecond(self):
        return 0

    def _no_field(self, name):
        raise Unsupported(f"datetime.{name} of a symbolic timestamp is not modelled")

    day = property(lambda self: self._no_field("day"))
    month = property(lambda self: self._no_field("month"))
    year = property(lambda self: self._no_field("year"))

    def weekday(self):
        return SymNum(((self.t / 86400) + 3) % 7)   # 1970-01-01 was a Thursday (weekday 3)

    def date(self):
        self._no_field("date()")

    def time(self):
        self._no_field("time()")

    def timetuple(self):
        self._no_field("timetuple()")

    def isoformat(self, *a, **k):
        return repr(self)

    def strftime(self, *a):
        self._no_field("strftime()")

    def utcoffset(self):
        return None

    def astimezone(self, tz=None):
        """naive value read as process-local wall clock (CPython semantics), re-expressed in `tz`; the aware result is
        represented by its wall-clock seconds in `tz` (callers strip tzinfo again)"""
        zone = TZ_OFF[0]
        if tz is None:
            return self
        off = tz.utcoffset(None)
        if off is None:
            raise Unsupported("astimezone(tz with date-dependent offset)")
        epoch = self.t if zone is None else zone.to_epoch(self.t)
        return SymDT(epoch + int(off.total_seconds()))

    def timestamp(self):
        zone = TZ_OFF[0]
        return SymNum(self.t if zone is None else zone.to_epoch(self.t))

    def _cmp(self, o, f):
        s = secs(o)
        if s is None:
            return NotImplemented
        return SymBool(f(self.t, s))

    def __lt__(self, o):
        return self._cmp(o, lambda a, b: a < b)

    def __le__(self, o):
        return self._cmp(o, lambda a, b: a <= b)

    def __gt__(self, o):
        return self._cmp(o, lambda a, b: a > b)

    def __ge__(self, o):
        return self._cmp(o, lambda a, b: a >= b)

    def __eq__(self, o):
        s = secs(o)
        if s is None:
            return False
        if self.t.eq(s):
            return True
        return SymBool(self.t == s)

    def __ne__(self, o):
        s = secs(o)
        if s is None:
            return True
        if self.t.eq(s):
            return False
        return SymBool(self.t != s)

    def __add__(self, o):
        if isinstance(o, timedelta):
            return SymDT(self.t + z3.IntVal(_td_secs(o)))
        return NotImplemented

    __radd__ = __add__

    def __sub__(self, o):
        if isinstance(o, timedelta):
            return SymDT(self.t - z3.IntVal(_td_secs(o)))
        if isinstance(o, SymTD):
            return SymDT(self.t - o.t)
        if isinstance(o, datetime):
            # datetime - datetime -> timedelta in whole seconds
            return SymTD(self.t - secs(o))
        return NotImplemented

    def __rsub__(self, o):
        if isinstance(o, datetime):
            return SymTD(secs(o) - self.t)
        return NotImplemented


class SymTD:
    """result of SymDT - datetime; supports total_seconds() only"""

    def __init__(self, t):
        self.t = t

    def total_seconds(self):
        return SymNum(self.t)

    # timedelta normal form: days = floor(t / 86400), 0 <= seconds < 86400 (also for negative deltas)
    @property
    def days(self):
        return SymNum(self.t / 86400)

    @property
    def seconds(self):
        return SymNum(self.t % 86400)

    @property
    def microseconds(self):
        return 0

    def _cmp(self, o, f):
        if isinstance(o, timedelta):
            return SymBool(f(self.t, z3.IntVal(_td_secs(o))))
        if isinstance(o, SymTD):
            return SymBool(f(self.t, o.t))
        return NotImplemented

    def __lt__(self, o):
        return self._cmp(o, lambda a, b: a < b)

    def __le__(self, o):
        return self._cmp(o, lambda a, b: a <= b)

    def __gt__(self, o):
        return self._cmp(o, lambda a, b: a > b)

    def __ge__(self, o):
        return self._cmp(o, lambda a, b: a >= b)

    def __sub__(self, o):
        if isinstance(o, timedelta):
            return SymTD(self.t - z3.IntVal(_td_secs(o)))
        if isinstance(o, SymTD):
            return SymTD(self.t - o.t)
        return NotImplemented

    def __rsub__(self, o):
        if isinstance(o, timedelta):
            return SymTD(z3.IntVal(_td_secs(o)) - self.t)
        return NotImplemented

    def __floordiv__(self, o):
        if isinstance(o, timedelta):
            return SymNum(self.t) // _td_secs(o)
        raise Unsupported("SymTD // ?")

    def __mod__(self, o):
        if isinstance(o, timedelta):
            return SymTD((SymNum(self.t) % _td_secs(o)).t)
        raise Unsupported("SymTD % ?")

    def __truediv__(self, o):
        # timedelta / timedelta -> float ratio (second resolution on both sides)
        if isinstance(o, timedelta):
            return SymNum(z3.ToReal(self.t) / z3.RealVal(_td_secs(o)))
        if isinstance(o, SymTD):
            return SymNum(z3.ToReal(self.t) / z3.ToReal(o.t))
        raise Unsupported("SymTD / number")

    def __rtruediv__(self, o):
        if isinstance(o, timedelta):
            return SymNum(z3.RealVal(_td_secs(o)) / z3.ToReal(self.t))
        raise Unsupported("? / SymTD")

    def __mul__(self, o):
        # whole multiples only (n * timeframe); a fractional factor would need timedelta's microsecond rounding
        if isinstance(o, SymNum) and o.t.sort().kind() == z3.Z3_INT_SORT:
            return SymTD(self.t * o.t)
        if isinstance(o, int) and not isinstance(o, bool):
            return SymTD(self.t * z3.IntVal(o))
        raise Unsupported("SymTD * non-integer")

    __rmul__ = __mul__

    def __eq__(self, o):
        if isinstance(o, timedelta):
            return SymBool(self.t == z3.IntVal(_td_secs(o)))
        if isinstance(o, SymTD):
            return SymBool(self.t == o.t)
        return NotImplemented

    def __ne__(self, o):
        r = self.__eq__(o)
        return r if r is NotImplemented else SymBool(z3.Not(r.t))

    def __hash__(self):
        return self.t.get_id()

    def __add__(self, o):
        if isinstance(o, datetime):
            return SymDT(secs(o) + self.t)
        if isinstance(o, timedelta):
            return SymTD(self.t + z3.IntVal(_td_secs(o)))
        return NotImplemented

    __radd__ = __add__

    def __neg__(self):
        return SymTD(-self.t)

    def __bool__(self):
        return core.ENGINE.branch(self.t != 0)


class _DTMeta(type):
    def __instancecheck__(cls, x):
        return isinstance(x, datetime)

    def __call__(cls, *a, **k):
        return datetime(*a, **k)


class DTShim(metaclass=_DTMeta):
    """stands in for the name `datetime` inside hexital.utils.timeframe"""

    @staticmethod
    def fromtimestamp(x, tz=None):
        if isinstance(x, SymNum):
            t = x.t
            if t.sort().kind() != z3.Z3_INT_SORT:
                t = z3.ToInt(t)
            zone = TZ_OFF[0]
            if tz is not None:
                # fromtimestamp(x, tz=utc): aware UTC datetime; callers strip tzinfo again
                return SymDT(t)
            return SymDT(t if zone is None else zone.to_wall(t))
        return datetime.fromtimestamp(x, tz) if tz is not None else datetime.fromtimestamp(x)

    @staticmethod
    def fromisoformat(s):
        d = datetime.fromisoformat(s)
        if TZ_OFF[0] is not None and d.tzinfo is None:
            # under a zone model a parsed naive wall-clock value must flow through the model like any other
            return SymDT(z3.IntVal(secs(d)))
        return d

    min = datetime.min
    max = datetime.max

    @staticmethod
    def now(*a, **k):
        return datetime.now(*a, **k)


class SymAwareTD(timedelta):
    """a concrete timedelta created inside the library (timeframe_to_timedelta, ...): behaves like timedelta, except that a
    symbolic number as the other operand of * is handled symbolically instead of being read as a C float"""

    def __mul__(self, o):
        if isinstance(o, SymNum):
            from . import core
            return core._times_timedelta(o, self)
        return timedelta.__mul__(self, o)

    __rmul__ = __mul__

    def __truediv__(self, o):
        if isinstance(o, SymNum):
            raise Unsupported("timedelta / symbolic number")
        return timedelta.__truediv__(self, o)

    def __floordiv__(self, o):
        if isinstance(o, SymNum):
            raise Unsupported("timedelta // symbolic number")
        return timedelta.__floordiv__(self, o)

    def __deepcopy__(self, memo):
        return self

    def __reduce__(self):
        return (timedelta, (self.days, self.seconds, self.microseconds))


class _TDMeta(type):
    def __instancecheck__(cls, x):
        return isinstance(x, (timedelta, SymTD))

    def __call__(cls, *a, **k):
        vals = list(a) + list(k.values())
        if not any(isinstance(v, SymNum) for v in vals):
            return SymAwareTD(*a, **k)
        names = ["days", "seconds", "microseconds", "milliseconds", "minutes", "hours", "weeks"]
        kw = dict(zip(names, a))
        kw.update(k)
        mult = dict(days=86400, seconds=1, minutes=60, hours=3600, weeks=604800)
        total = z3.IntVal(0)
        for name, v in kw.items():
            if name in ("microseconds", "milliseconds"):
                if isinstance(v, SymNum) or v:
                    raise Unsupported("sub-second timedelta")
                continue
            t = v.t if isinstance(v, SymNum) else z3.IntVal(int(v))
            if t.sort().kind() != z3.Z3_INT_SORT:
                raise Unsupported("non-integer symbolic timedelta component")
            total = total + t * mult[name]
        return SymTD(total)


class TDShim(metaclass=_TDMeta):
    """stands in for the name `timedelta` in hexital modules (symbolic components build a SymTD)"""
    min = timedelta.min
    max = timedelta.max
    resolution = timedelta.resolution


def install():
    import sys

    import hexital.utils.timeframe as tfm

    tfm.datetime = DTShim
    for n, m in list(sys.modules.items()):
        if (n == "hexital" or n.startswith("hexital.")) and m is not None:
            if m.__dict__.get("timedelta") is timedelta:
                m.__dict__["timedelta"] = TDShim
            if m.__dict__.get("datetime") is datetime and n != "hexital.utils.timeframe":
                m.__dict__["datetime"] = DTShim
