"""Obligation runner: explores every feasible path of a harness function, discharges its assertions
with z3, replays counterexamples on the unmodified library, writes evidence."""
from __future__ import annotations

import fnmatch
import importlib
import json
import multiprocessing as mp
import os
import random
import re
import subprocess
import sys
import time
import traceback

VERIF = os.path.dirname(os.path.dirname(os.path.abspath(__file__)))
REPO = os.environ.get("HEXITAL_REPO", "/repo")
VENV_PY = os.environ.get("HEXITAL_PY", "/venv/bin/python")
OUT = os.environ.get("VERIF_OUT", VERIF)

EXIT_OK, EXIT_VIOLATION, EXIT_HARNESS = 0, 1, 2


class Ob:
    """one proof obligation = one harness function + parameters + engine configuration"""

    def __init__(self, name, params=None, cfg=None, fn="run", max_paths=20000, budget_s=600, weight=1.0, selfcheck=True):
        self.name, self.params, self.cfg, self.fn = name, params or {}, cfg or {}, fn
        self.max_paths, self.budget_s, self.weight, self.selfcheck = max_paths, budget_s, weight, selfcheck

    def asdict(self):
        return dict(name=self.name, params=self.params, cfg=self.cfg, fn=self.fn, max_paths=self.max_paths,
                    budget_s=self.budget_s, weight=self.weight, selfcheck=self.selfcheck)


def _slug(s):
    return re.sub(r"[^A-Za-z0-9_.=-]+", "_", s)[:120]


def _setup_process():
    os.environ["TZ"] = "UTC"
    time.tzset()
    if hasattr(sys, "set_int_max_str_digits"):
        sys.set_int_max_str_digits(0)      # z3 models may contain rationals with thousands of digits
    if REPO not in sys.path:
        sys.path.insert(0, REPO)
    if VERIF not in sys.path:
        sys.path.insert(0, VERIF)


_SHIMMED = False


def _ensure_shims():
    global _SHIMMED
    import hexital  # noqa: F401  (the real package from /repo's working tree)
    import hexital.indicators  # noqa: F401
    import hexital.analysis  # noqa: F401
    from symx import core
    core.install_shims()
    _SHIMMED = True


def run_replay_file(path, tz="UTC", observe=False, timeout=120):
    env = dict(os.environ)
    env["TZ"] = tz
    env["PYTHONPATH"] = REPO
    env.pop("PYTHONHOME", None)
    cmd = [VENV_PY, os.path.join(VERIF, "symx", "replay.py"), path]
    if observe:
        cmd.append("--observe")
    try:
        p = subprocess.run(cmd, env=env, capture_output=True, text=True, timeout=timeout, cwd=VERIF)
    except subprocess.TimeoutExpired:
        return None, "replay timeout"
    try:
        out = json.loads(p.stdout.strip().splitlines()[-1])
    except Exception:
        return None, f"replay produced no JSON (rc={p.returncode}): {p.stdout[-300:]} {p.stderr[-600:]}"
    return out, p.stderr[-300:]


def run_ob(args):
    """worker entry: explore one obligation. Returns a JSON-able result dict."""
    prop, obd, tier, seed, do_selfcheck = args[:5]
    deadline = args[5] if len(args) > 5 else None
    _setup_process()
    t0 = time.time()
    res = dict(name=obd["name"], status="ok", error=None, wall_s=0.0)
    if deadline is not None:
        left = deadline - t0
        if left <= 5:
            # the check-level time budget of this tier is used up: the obligation is reported as not explored
            res.update(status="budget", error="check-level budget exhausted before this obligation started", stats={}, asserts=0, not_started=True)
            return res
        obd = dict(obd, budget_s=min(obd["budget_s"], max(30, left)))
    try:
        _ensure_shims()
        import z3
        from symx import core
        from symx.ctx import Collector, SymCtx, eval_obs, exc_sig
        mod = importlib.import_module(f"harness.{prop}")
        fn = getattr(mod, obd["fn"])
        cfg = dict(obd["cfg"])
        cfg["seed"] = seed
        eng = core.Engine(cfg)
        col = Collector(obd)
        rdir = os.path.join(OUT, "replays", prop)
        os.makedirs(rdir, exist_ok=True)
        tz_of = getattr(mod, "scenario_tz", None)

        def replayer(sc):
            sc = dict(sc)
            full = dict(property=prop, ob=obd["name"], fn=obd["fn"], params={**obd["params"], **sc.pop("params_extra", {})}, tier=tier, **sc)
            full["tz"] = tz_of(full) if tz_of else "UTC"
            path = os.path.join(rdir, _slug(obd["name"]) + "--" + _slug(sc["label"]) + ".json")
            with open(path, "w") as f:
                json.dump(full, f, indent=1)
            out, err = run_replay_file(path, tz=full["tz"])
            if out is None:
                return False, err, path
            labels = [l for l, _ in out.get("failures", [])]
            return sc["label"] in labels, out, path

        funcs = set()
        state = dict(first=True)

        def prof(frame, event, arg):
            if event == "call":
                fnm = frame.f_code.co_filename
                if "/hexital/" in fnm and not fnm.startswith(VERIF):
                    funcs.add("hexital/" + fnm.split("/hexital/", 1)[1] + ":" + frame.f_code.co_name)

        def one_path():
            ctx = SymCtx(eng, col, obd["params"], replayer)
            first = state["first"]
            if first:
                sys.setprofile(prof)
            try:
                try:
                    fn(ctx, obd["params"])
                except (core.PathAbort, core.Budget, core.Unsupported):
                    raise
                except Exception as e:  # escaped the harness: the library raised on a feasible path
                    sig = exc_sig(e)
                    if "@?" in sig:
                        raise
                    ctx.fail("raises:" + sig, repr(e)[:200])
            finally:
                if first:
                    sys.setprofile(None)
            if state["first"]:
                state["first"] = False
                if eng.check() == "sat":
                    m = eng.model()
                    sc = ctx._scenario(m, "witness", None)
                    col.witness = sc["inputs"]
                    if not eng.nl_uf and eng.round_mode == "ideal":
                        col.witness_obs = [(l, eval_obs(m, v)) for l, v in ctx.observations]

        try:
            eng.explore(one_path, max_paths=obd["max_paths"], budget_s=obd["budget_s"])
        except core.Budget as b:
            res["status"] = "budget"
            res["error"] = f"budget exhausted ({b})"
        except core.Unsupported as u:
            res["status"] = "unsupported"
            res["error"] = "".join(traceback.format_exception_only(type(u), u)).strip() + " @ " + "".join(traceback.format_tb(u.__traceback__)[-3:])[-600:]

        fin = getattr(mod, "finalize", None)
        if fin is not None and res["status"] == "ok":
            fin(col, obd, replayer)     # cross-path obligations (e.g. C07: max over all paths)

        # ---- pinned self-validation of the encoding against a plain float run of the real code
        sv = None
        if do_selfcheck and obd.get("selfcheck", True) and col.witness is not None and res["status"] == "ok":
            sv = selfcheck(prop, obd, fn, col.witness, rdir)
        res.update(
            stats=eng.stats, asserts=col.asserts, discharged=col.discharged, structural=col.structural,
            trivial=col.trivial, inconclusive=sorted(set(col.inconclusive)), n_inconclusive=len(col.inconclusive),
            reproduced={l: dict(replay=p, detail=sc.get("detail", ""), inputs=sc["inputs"]) for l, (sc, out, p) in col.reproduced.items()},
            unreproduced={l: dict(count=n, example=col.candidates[l][0]) for l, n in col.unreproduced.items() if l not in col.reproduced},
            witness=col.witness, funcs=sorted(funcs), assumed=eng.assumed, selfcheck=sv, cfg=obd["cfg"], params=obd["params"],
        )
    except BaseException as e:  # harness bug: never a verdict
        res["status"] = "error"
        res["error"] = "".join(traceback.format_exception(type(e), e, e.__traceback__))[-1500:]
    res["wall_s"] = round(time.time() - t0, 3)
    return res


def selfcheck(prop, obd, fn, inputs, rdir):
    """Run the harness (a) symbolically with every input pinned to the witness values, exact rational
    arithmetic, exact rounding; (b) concretely under /venv/bin/python without shims. Compare observations."""
    from symx import core
    from symx.ctx import Collector, SymCtx, eval_obs, exc_sig
    eng = core.Engine(dict(round="exact", div="fork", nl_uf=False, timeout_ms=5000))
    col = Collector(obd)
    got = {}

    def one():
        ctx = SymCtx(eng, col, obd["params"], None, pinned=inputs)
        try:
            fn(ctx, obd["params"])
            got["obs"] = [(l, eval_obs(None, v)) for l, v in ctx.observations]
            got["exc"] = None
        except (core.PathAbort, core.Budget, core.Unsupported):
            raise
        except Exception as e:
            got["obs"] = []
            got["exc"] = type(e).__name__

    try:
        eng.explore(one, max_paths=50, budget_s=60)
    except (core.Budget, core.Unsupported) as e:
        return dict(ok=None, why=f"pinned run not completed: {e!r}"[:200])
    if "obs" not in got:
        return dict(ok=None, why="pinned run infeasible (witness came from an abstracted model)")
    path = os.path.join(rdir, _slug(obd["name"]) + "--selfcheck.json")
    with open(path, "w") as f:
        json.dump(dict(property=prop, ob=obd["name"], fn=obd["fn"], params=obd["params"], label="selfcheck", inputs=inputs, tz="UTC"), f)
    out, err = run_replay_file(path, observe=True)
    try:
        os.remove(path)
    except OSError:
        pass
    if out is None:
        return dict(ok=False, why=err)
    if out.get("invalid"):
        return dict(ok=None, why="witness not valid for the concrete twin: " + str(out.get("invalid"))[:200])
    if got["exc"] or out.get("exception"):
        ok = got["exc"] == (out.get("exception") or "").split("@")[0]
        return dict(ok=ok if ok else None, why=f"symbolic raised {got['exc']}, concrete raised {out.get('exception')}", n=0)
    a, b = got["obs"], out.get("observations", [])
    # a coarser round_value in the obligation (0, 1, 2 decimals): the pinned run rounds exact rationals, the real run
    # rounds doubles - at a tie (x.05 -> 1 decimal) they may legitimately land one unit apart
    global _SV_EXTRA_TOL
    rvs = [int(m) for m in re.findall(r"round_value['\"]?\s*[:=]\s*(\d+)", json.dumps(obd["params"]))] + ([obd["params"]["rv"]] if isinstance(obd["params"].get("rv"), int) else [])
    _SV_EXTRA_TOL = max([1.01 * 10 ** (-rv) for rv in rvs if rv < 4] or [0.0])
    bad = _cmp_obs(a, b)
    sym_fail = sorted({l for l in col.reproduced} | {l for l in col.candidates})
    return dict(ok=bad is None, why=bad, n=_count_leaves(a), concrete_failures=[l for l, _ in out.get("failures", [])], pinned_failures=sym_fail)


_SV_EXTRA_TOL = 0.0


def _count_leaves(x):
    if isinstance(x, dict):
        return sum(_count_leaves(v) for v in x.values())
    if isinstance(x, (list, tuple)):
        return sum(_count_leaves(v) for v in x)
    return 1


def _cmp_obs(a, b, path=""):
    if isinstance(a, dict) and isinstance(b, dict):
        if set(map(str, a)) != set(map(str, b)):
            return f"{path}: keys differ {sorted(map(str, a))} vs {sorted(map(str, b))}"
        for k in a:
            r = _cmp_obs(a[k], b[str(k)] if str(k) in b else b[k], f"{path}.{k}")
            if r:
                return r
        return None
    if isinstance(a, (list, tuple)) and isinstance(b, (list, tuple)):
        if len(a) != len(b):
            return f"{path}: length {len(a)} vs {len(b)}"
        for i, (x, y) in enumerate(zip(a, b)):
            r = _cmp_obs(x, y, f"{path}[{i}]")
            if r:
                return r
        return None
    if isinstance(a, bool) or isinstance(b, bool) or a is None or b is None or isinstance(a, str) or isinstance(b, str):
        return None if a == b else f"{path}: symbolic {a!r} vs concrete {b!r}"
    if isinstance(a, (int, float)) and isinstance(b, (int, float)):
        # helper series are rounded to 4 decimals inside the library and running updates drift: allow it
        tol = 1e-6 * max(1.0, abs(a), abs(b)) + 2e-3 + _SV_EXTRA_TOL
        return None if abs(a - b) <= tol else f"{path}: symbolic {a!r} vs concrete {b!r}"
    return None if a == b else f"{path}: symbolic {a!r} vs concrete {b!r}"


# ---------------------------------------------------------------------------------------------
def load_known():
    p = os.path.join(VERIF, "known_findings.json")
    if not os.path.exists(p):
        return []
    return json.load(open(p)).get("findings", [])


def match_known(known, prop, obname, label):
    for k in known:
        if k.get("status", "open") != "open":
            continue
        if k["property"] == prop and fnmatch.fnmatchcase(obname, k.get("obligation", "*")) and fnmatch.fnmatchcase(label, k["signature"]):
            return k
    return None


def main(prop, tier="quick", jobs=None, seed=0, only=None, verbose=False):
    _setup_process()
    t0 = time.time()
    mod = importlib.import_module(f"harness.{prop}")
    obs = mod.obligations(tier)
    if only:
        obs = [o for o in obs if fnmatch.fnmatchcase(o.name, only)]
    rnd = random.Random(seed)
    order = list(range(len(obs)))
    if seed:
        rnd.shuffle(order)
    order.sort(key=lambda i: -obs[i].weight)
    n_self = getattr(mod, "SELFCHECK", {"quick": 6, "thorough": 24}).get(tier, 6)
    sc_idx = set(rnd.sample(range(len(obs)), min(n_self, len(obs)))) if obs else set()
    jobs = jobs or int(os.environ.get("VERIF_JOBS", "0")) or min(16, os.cpu_count() or 4)
    cap = int(os.environ.get("VERIF_OB_BUDGET", "300" if tier == "quick" else "2400"))
    for o in obs:
        o.budget_s = min(o.budget_s, cap)      # quick tier: no single obligation may run longer than 5 minutes
    # thorough tier: a wall-clock budget per check (lightest obligations first, so that as many as possible complete;
    # what does not start or finish inside it is listed as over budget / not started, never as discharged)
    check_budget = int(os.environ.get("VERIF_CHECK_BUDGET", "0" if tier == "quick" else "1200"))
    deadline = (t0 + check_budget) if check_budget else None
    if deadline:
        order.sort(key=lambda i: obs[i].weight)
    tasks = [(prop, obs[i].asdict(), tier, seed, i in sc_idx, deadline) for i in order]
    # clean old replays for this property (evidence must come from this run)
    rdir = os.path.join(OUT, "replays", prop)
    if os.path.isdir(rdir) and not only:
        for f in os.listdir(rdir):
            if f.endswith(".json"):
                os.remove(os.path.join(rdir, f))
    results = []
    if jobs == 1 or len(tasks) <= 1:
        for t in tasks:
            results.append(run_ob(t))
    else:
        ctxm = mp.get_context("fork")
        with ctxm.Pool(processes=min(jobs, len(tasks)), maxtasksperchild=8) as pool:
            for r in pool.imap_unordered(run_ob, tasks, chunksize=1):
                results.append(r)
                if verbose:
                    print(f"  [{r['status']}] {r['name']} paths={r.get('stats', {}).get('paths')} asserts={r.get('asserts')} wall={r['wall_s']}s {('ERR ' + str(r['error'])[:300]) if r['error'] else ''}", flush=True)
    results.sort(key=lambda r: r["name"])
    return report(prop, tier, seed, mod, results, time.time() - t0, partial=bool(only))


def report(prop, tier, seed, mod, results, wall, partial=False):
    known = load_known()
    violations, knowns, harness_errors, unconfirmed = [], [], [], []
    for r in results:
        if r["status"] == "error":
            harness_errors.append((r["name"], r["error"]))
            continue
        if r["status"] == "unsupported":
            harness_errors.append((r["name"], r["error"]))
        for label, info in r.get("reproduced", {}).items():
            k = match_known(known, prop, r["name"], label)
            (knowns if k else violations).append((r["name"], label, info, k))
        for label, info in r.get("unreproduced", {}).items():
            unconfirmed.append((r["name"], label, info))
        sv = r.get("selfcheck")
        if sv and sv.get("ok") is False:
            harness_errors.append((r["name"], "self-validation mismatch: " + str(sv.get("why"))))
    agg = lambda k: sum(r.get("stats", {}).get(k, 0) for r in results)
    paths, decisions = agg("paths"), agg("decisions")
    asserts = sum(r.get("asserts", 0) for r in results)
    discharged = sum(r.get("discharged", 0) for r in results)
    structural = sum(r.get("structural", 0) for r in results)
    inconc = sum(r.get("n_inconclusive", 0) for r in results)
    budget = [r["name"] for r in results if r["status"] == "budget"]
    funcs = sorted({f for r in results for f in r.get("funcs", [])})
    assumed = sorted({a for r in results for a in r.get("assumed", [])})
    svs = [r["selfcheck"] for r in results if r.get("selfcheck")]
    sv_ok = sum(1 for s in svs if s.get("ok") is True)
    samples = []
    for r in results[:]:
        if r.get("witness") and len(samples) < 3:
            samples.append(dict(obligation=r["name"], params=r.get("params"), path_witness_inputs=r["witness"], paths=r["stats"]["paths"], assertions=r["asserts"]))
    for name, label, info, k in (violations + knowns)[:3]:
        samples.append(dict(obligation=name, counterexample_label=label, replay=info["replay"], inputs=info["inputs"]))
    meta = getattr(mod, "META", {})
    ev = dict(
        property_id=prop, tier=tier, seed=seed, level="model_checking",
        coverage=dict(
            states=max(paths, 0), transitions=max(decisions, 0),
            traces_validated_against_impl=sv_ok + len(violations) + len(knowns),
            samples=samples or [dict(note="no obligation completed")],
            obligations=asserts, discharged=discharged, discharged_structurally_float_exact=structural,
            inconclusive=inconc, inconclusive_where=[dict(obligation=r["name"], labels=r["inconclusive"]) for r in results if r.get("inconclusive")][:20],
            harness_obligations=len(results), obligations_over_budget=budget, obligations_not_started=[r["name"] for r in results if r.get("not_started")],
            paths_aborted_infeasible=agg("aborted"), solver_queries=agg("queries"), solver_queries_fresh_tier=agg("q_fresh"),
            solver_s=round(agg("solver_s"), 2), unknown_at_branch_overapproximated=agg("unknown_branch"),
            selfvalidation_runs=len(svs), selfvalidation_ok=sv_ok,
            selfvalidation_skipped=[s.get("why") for s in svs if s.get("ok") is None][:5],
            functions_encoded=funcs, bounds=meta.get("bounds", {}).get(tier, meta.get("bounds")), stubs=meta.get("stubs", []),
            solver="z3 " + _z3v(), unconfirmed_candidates=[dict(obligation=n, label=l, count=i["count"]) for n, l, i in unconfirmed][:20],
            known_findings_seen=[dict(obligation=n, label=l) for n, l, i, k in knowns][:50],
            explanation=meta.get("explanation", ""), exhaustive=False,
            rule="one state = one feasible path (branch-decision vector) of the real code over symbolic inputs; an obligation = one assertion instance on one path decided by z3 for all input values of that path",
        ),
        assumptions=list(meta.get("assumptions", [])) + assumed,
        wall_s=round(wall, 2), violations=len(violations),
    )
    if ev["coverage"]["states"] < 1:
        ev["coverage"]["states"] = 1
    if ev["coverage"]["transitions"] < 1:
        ev["coverage"]["transitions"] = 1
    if not partial:
        os.makedirs(os.path.join(OUT, "evidence"), exist_ok=True)
        with open(os.path.join(OUT, "evidence", f"{prop}.json"), "w") as f:
            json.dump(ev, f, indent=1, default=str)
    print(f"[{prop}/{tier}] harness-obligations={len(results)} paths={paths} assertions={asserts} discharged={discharged} "
          f"(+{structural} structural) inconclusive={inconc} over-budget={len(budget)} selfcheck={sv_ok}/{len(svs)} "
          f"solver_s={ev['coverage']['solver_s']} wall={wall:.1f}s")
    for name, label, info, k in knowns:
        print(f"KNOWN-FINDING: property={prop} {k.get('id', '')} obligation={name} signature={label} replay={info['replay']}")
    for name, label, info in unconfirmed:
        print(f"note: unconfirmed candidate (did not reproduce on the real code, not reported): {name} {label} x{info['count']}")
    for name, err in harness_errors:
        print(f"HARNESS-ERROR {name}: {err}", file=sys.stderr)
    for name, label, info, k in violations:
        print(f"VIOLATION property={prop} replay={info['replay']}")
        print(f"  obligation={name} assertion={label} detail={info.get('detail', '')[:300]}")
    if violations:
        return EXIT_VIOLATION
    if harness_errors:
        return EXIT_HARNESS
    return EXIT_OK


def _z3v():
    try:
        import z3
        return z3.get_version_string()
    except Exception:
        return "?"
