"""symx core: shadow-value symbolic execution of the real Hexital modules on z3 terms.

The library code is *executed*; every number it touches is a `SymNum` (a float subclass carrying a
z3 term), every comparison yields a `SymBool`, and `SymBool.__bool__` is the one place a path forks
(DFS by re-execution: nothing is copied, a path is identified by its list of branch decisions).
This module needs z3 and therefore runs under python3-vt only.
"""
from __future__ import annotations

import builtins
import math
import operator
import os
import sys
import time
from fractions import Fraction

import z3


class Unsupported(Exception):
    """The run left the fragment the engine models (concretisation through C code, ...)."""


class PathAbort(BaseException):
    """Current path is infeasible / an assumption cannot hold. BaseException so that library
    `except Exception` blocks never swallow it."""


class Budget(BaseException):
    """Path / time budget of an obligation exhausted."""


ENGINE: "Engine" = None  # the engine of the running path (one per process)

_MUL = z3.Function("mul", z3.RealSort(), z3.RealSort(), z3.RealSort())
_DIV = z3.Function("div", z3.RealSort(), z3.RealSort(), z3.RealSort())
_SQRT = z3.Function("sqrt", z3.RealSort(), z3.RealSort())
_RND = {}


def _rnd_fn(nd):
    f = _RND.get(nd)
    if f is None:
        f = _RND[nd] = z3.Function(f"rnd{nd}", z3.RealSort(), z3.RealSort())
    return f


class Engine:
    """One Engine per obligation. cfg keys:
    round:  'ideal' | 'eps' | 'uf'      model of round(x, nd)
    div:    'fork' | 'assume'           symbolic denominators: fork on ==0 (raise) or assume !=0
    nl_uf:  bool                        abstract symbolic*symbolic and x/symbolic as UFs
    timeout_ms: per-query timeout of the incremental tier
    """

    def __init__(self, cfg=None):
        cfg = dict(cfg or {})
        self.round_mode = cfg.get("round", "uf")
        self.div_mode = cfg.get("div", "assume")
        self.nl_uf = bool(cfg.get("nl_uf", False))
        self.sqrt_mode = cfg.get("sqrt", "fork")
        # standard floating-point error model: every arithmetic result is exact*(1+d), |d| <= 2^-52 (d fresh per operation)
        self.fp_err = bool(cfg.get("fp_err", False))
        self._nerr = 0
        self.timeout_ms = int(cfg.get("timeout_ms", 2000))
        self.fresh_timeout_ms = int(cfg.get("fresh_timeout_ms", 10000))
        self.seed = int(cfg.get("seed", 0))
        self.stats = dict(paths=0, aborted=0, decisions=0, queries=0, q_fresh=0, solver_s=0.0,
                          unknown_branch=0, cache_hits=0)
        self.assumed = []  # human readable list of div!=0 assumptions etc (deduplicated labels)
        self._assumed_set = set()
        self.deadline = None

    # ------------------------------------------------------------------ per path state
    def _reset(self, prefix):
        self.solver = z3.Solver()
        self.solver.set("timeout", self.timeout_ms)
        if self.seed:
            self.solver.set("random_seed", self.seed % 1000)
        self.prefix = prefix
        self.trail = []  # (taken, other_side_feasible)
        self.decided = {}
        self.rnd_cache = {}
        self._nerr = 0
        self.rnd_results = set()
        self.uf_apps = {}  # id -> exact-semantics axiom of each mul/div UF application on this path
        self.vars = {}  # name -> z3 const, declaration order
        self.kinds = {}
        self.npc = 0

    def note(self, label):
        if label not in self._assumed_set:
            self._assumed_set.add(label)
            self.assumed.append(label)

    def assume(self, cond):
        if isinstance(cond, SymBool):
            cond = cond.t
        if cond is True or (z3.is_expr(cond) and z3.is_true(cond)):
            return
        if cond is False or (z3.is_expr(cond) and z3.is_false(cond)):
            raise PathAbort()
        self.solver.add(cond)
        self.npc += 1

    def assume_checked(self, cond):
        """assume + make sure the path stays feasible (used for harness preconditions)."""
        self.assume(cond)
        r = self.check()
        if r == "unsat":
            raise PathAbort()

    def check(self, *extra, fresh_only=False, timeout_ms=None):
        """sat/unsat/unknown (as str) of pc /\\ extra. Tier 1 incremental, tier 2 fresh solver."""
        if self.deadline is not None and time.time() > self.deadline:
            raise Budget("time")
        t0 = time.time()
        r = z3.unknown
        if not fresh_only:
            self.stats["queries"] += 1
            r = self.solver.check(*extra)
        if r == z3.unknown:
            self.stats["q_fresh"] += 1
            s2 = z3.Solver()
            s2.set("timeout", timeout_ms or self.fresh_timeout_ms)
            s2.add(self.solver.assertions())
            s2.add(*extra)
            r = s2.check()
            self._last_solver = s2
        else:
            self._last_solver = self.solver
        self.stats["solver_s"] += time.time() - t0
        return str(r)

    def model(self):
        return self._last_solver.model()

    def branch(self, cond) -> bool:
        if self.round_mode == "exact":
            cond = z3.simplify(cond)
        if z3.is_true(cond):
            return True
        if z3.is_false(cond):
            return False
        cid = cond.get_id()
        hit = self.decided.get(cid)
        if hit is not None:
            self.stats["cache_hits"] += 1
            return hit[0]
        k = len(self.trail)
        if k < len(self.prefix):
            taken, forced = self.prefix[k]
            self.trail.append((taken, False))
            if not forced:
                self.assume(cond if taken else z3.Not(cond))
            self.decided[cid] = (taken, cond)
            return taken
        self.stats["decisions"] += 1
        rt = self.check(cond)
        rf = self.check(z3.Not(cond))
        if rt == "unknown":
            rt = "sat"
            self.stats["unknown_branch"] += 1
        if rf == "unknown":
            rf = "sat"
            self.stats["unknown_branch"] += 1
        if rt == "sat" and rf == "sat":
            # deterministic choice; seed only permutes which side is explored first
            taken = True if (self.seed + k) % 2 == 0 or self.seed == 0 else False
            self.trail.append((taken, True))
            self.assume(cond if taken else z3.Not(cond))
            self.decided[cid] = (taken, cond)
            return taken
        if rt == "sat":
            self.decided[cid] = (True, cond)
            self.trail.append((True, False))
            return True
        if rf == "sat":
            self.decided[cid] = (False, cond)
            self.trail.append((False, False))
            return False
        raise PathAbort()

    def explore(self, fn, max_paths=20000, budget_s=None):
        """Run fn() once per feasible path. Returns number of completed paths."""
        global ENGINE
        ENGINE = self
        self.deadline = time.time() + budget_s if budget_s else None
        work = [[]]
        while work:
            prefix = work.pop()
            self._reset(prefix)
            try:
                fn()
                self.stats["paths"] += 1
            except PathAbort:
                self.stats["aborted"] += 1
            n0 = len(prefix)
            for i in range(n0, len(self.trail)):
                taken, other = self.trail[i]
                if other:
                    pre = []
                    for j in range(i):
                        t, o = self.trail[j]
                        forced = prefix[j][1] if j < n0 else (not o)
                        pre.append((t, forced))
                    pre.append((not taken, False))
                    work.append(pre)
            if self.stats["paths"] + self.stats["aborted"] >= max_paths and work:
                raise Budget("paths")
            if self.deadline is not None and time.time() > self.deadline and work:
                raise Budget("time")
        return self.stats["paths"]

    def rounding_axioms(self):
        """monotonicity and oddness of round(., nd) over the applications on this path"""
        items = [(r, x) for (nd, _), (r, x) in self.rnd_cache.items()]
        ax = []
        for i, (ri, xi) in enumerate(items):
            for j, (rj, xj) in enumerate(items):
                if i == j:
                    continue
                ax.append(z3.Implies(xi <= xj, ri <= rj))
                # a rounded value is a fixed point of round: compare arguments with results as well
                ax.append(z3.Implies(xi <= rj, ri <= rj))
                ax.append(z3.Implies(xi >= rj, ri >= rj))
                if i < j:
                    ax.append(z3.Implies(xi <= -xj, ri <= -rj))
                    ax.append(z3.Implies(-xi <= xj, -ri <= rj))
        return ax

    # ------------------------------------------------------------------ models of library primitives
    def rnd(self, term, nd):
        if self.round_mode == "ideal":
            return term
        if self.round_mode == "exact":  # pinned self-validation runs: everything is a constant
            term = z3.simplify(term)
            if z3.is_algebraic_value(term):
                term = term.approx(30)
            if not (z3.is_rational_value(term) or z3.is_int_value(term)):
                raise Unsupported("non-constant term in a pinned run")
        if z3.is_rational_value(term) or z3.is_int_value(term):
            # concrete value: round exactly like python would on the rational
            fr = Fraction(term.numerator_as_long(), term.denominator_as_long()) if z3.is_rational_value(term) else Fraction(term.as_long())
            return z3.RealVal(Fraction(round(fr, nd)))
        h = z3.RealVal(Fraction(1, 2 * 10 ** nd))
        if (nd, term.get_id()) in self.rnd_results:
            return term  # round(round(x, nd), nd) == round(x, nd)
        if self.round_mode == "eps":
            key = (nd, term.get_id())
            hit = self.rnd_cache.get(key)
            if hit is not None:
                return hit[0]
            r = z3.Real(f"rnd{nd}!{len(self.rnd_cache)}")
            self.rnd_results.add((nd, r.get_id()))
            self.solver.add(r - term <= h, term - r <= h)
            for g in (-100, 0, 100):
                self.solver.add(z3.Implies(term >= g, r >= g), z3.Implies(term <= g, r <= g))
            self.rnd_cache[key] = (r, term)
            return r
        r = _rnd_fn(nd)(term)
        self.rnd_results.add((nd, r.get_id()))
        key = (nd, term.get_id())
        if key not in self.rnd_cache:
            self.rnd_cache[key] = (r, term)
            self.solver.add(r - term <= h, term - r <= h)
        return r


# ---------------------------------------------------------------------- value classes
def _is_const(t):
    return z3.is_rational_value(t) or z3.is_int_value(t)


def _const_frac(t):
    if z3.is_int_value(t):
        return Fraction(t.as_long())
    return Fraction(t.numerator_as_long(), t.denominator_as_long())


def lift(x):
    """python number / SymNum -> z3 arithmetic term (or None)."""
    if isinstance(x, SymNum):
        return x.t
    if isinstance(x, SymBool):
        return z3.If(x.t, z3.RealVal(1), z3.RealVal(0))
    if isinstance(x, bool):
        return z3.RealVal(int(x))
    if isinstance(x, int):
        return z3.IntVal(x)
    if isinstance(x, float):
        if x != x or x in (math.inf, -math.inf):
            raise Unsupported("nan/inf constant")
        return z3.RealVal(Fraction(x))
    if isinstance(x, Fraction):
        return z3.RealVal(x)
    return None


def _coerce(a, b):
    """make both Int or both Real."""
    ia, ib = a.sort().kind() == z3.Z3_INT_SORT, b.sort().kind() == z3.Z3_INT_SORT
    if ia and not ib and z3.is_rational_value(b) and b.denominator_as_long() == 1:
        return a, z3.IntVal(b.numerator_as_long())  # keep integer (timestamp) arithmetic in Int
    if ib and not ia and z3.is_rational_value(a) and a.denominator_as_long() == 1:
        return z3.IntVal(a.numerator_as_long()), b
    if ia and not ib:
        a = z3.RealVal(a.as_long()) if z3.is_int_value(a) else z3.ToReal(a)
    elif ib and not ia:
        b = z3.RealVal(b.as_long()) if z3.is_int_value(b) else z3.ToReal(b)
    return a, b


def _real(a):
    if a.sort().kind() == z3.Z3_INT_SORT:
        return z3.RealVal(a.as_long()) if z3.is_int_value(a) else z3.ToReal(a)
    return a


def _pyval(t):
    """constant term -> the python number the library would hold (int for Int-sorted, float for Real-sorted)"""
    t = z3.simplify(t)
    if z3.is_int_value(t):
        return t.as_long()
    if z3.is_rational_value(t):
        return float(Fraction(t.numerator_as_long(), t.denominator_as_long()))
    if z3.is_algebraic_value(t):
        a = t.approx(30)
        return float(Fraction(a.numerator_as_long(), a.denominator_as_long()))
    return None


def _from_py(v):
    if isinstance(v, bool):
        return z3.IntVal(int(v))
    if isinstance(v, int):
        return z3.IntVal(v)
    if v != v or v in (math.inf, -math.inf):
        raise Unsupported("nan/inf in a pinned run")
    return z3.RealVal(Fraction(v))


def _fold(pyf, a, b):
    """pinned self-validation runs: every value is a constant, and arithmetic is done the way the library does it
    on plain values - in IEEE doubles, operation by operation - so that the run is bit-faithful"""
    pa, pb = _pyval(a), _pyval(b)
    if pa is None or pb is None:
        return None
    return SymNum(_from_py(pyf(pa, pb)))


_U = Fraction(1, 2 ** 52)


def _fp(t):
    """floating-point error model (only when the engine asks for it): result = exact + e, |e| <= 2^-52 * |exact|"""
    if not ENGINE.fp_err or _is_const(t) or t.sort().kind() == z3.Z3_INT_SORT:
        return t
    ENGINE._nerr += 1
    e = z3.Real(f"fperr!{ENGINE._nerr}")
    mag = z3.If(t >= 0, t, -t) * z3.RealVal(_U)
    ENGINE.solver.add(e <= mag, -e <= mag)
    return t + e


def _mul(a, b):
    a, b = _coerce(a, b)
    if ENGINE.nl_uf and not _is_const(a) and not _is_const(b):
        # commutative normal form so that x*y and y*x are the same UF application
        if a.get_id() > b.get_id():
            a, b = b, a
        a, b = _real(a), _real(b)
        r = _MUL(a, b)
        ENGINE.uf_apps.setdefault(r.get_id(), r == a * b)
        return r
    return a * b


class SymBool:
    __slots__ = ("t",)

    def __init__(self, t):
        self.t = t

    def __bool__(self):
        return ENGINE.branch(self.t)

    def __deepcopy__(self, memo):
        return self

    def __copy__(self):
        return self

    def __repr__(self):
        s = self.t.sexpr()
        return f"SymBool({s if len(s) <= 160 else s[:160] + '...'})"

    def __and__(self, o):
        return SymBool(z3.And(self.t, o.t if isinstance(o, SymBool) else z3.BoolVal(bool(o))))

    __rand__ = __and__

    def __or__(self, o):
        return SymBool(z3.Or(self.t, o.t if isinstance(o, SymBool) else z3.BoolVal(bool(o))))

    __ror__ = __or__

    def __invert__(self):
        return SymBool(z3.Not(self.t))

    # arithmetic on a bool reading (python: True == 1, False == 0) - an average or a sum over a boolean series
    def _num(self):
        return SymNum(z3.If(self.t, z3.RealVal(1), z3.RealVal(0)))

    def __add__(self, o):
        return self._num() + (o._num() if isinstance(o, SymBool) else o)

    def __radd__(self, o):
        return (o._num() if isinstance(o, SymBool) else o) + self._num()

    def __sub__(self, o):
        return self._num() - (o._num() if isinstance(o, SymBool) else o)

    def __rsub__(self, o):
        return (o._num() if isinstance(o, SymBool) else o) - self._num()

    def __mul__(self, o):
        return self._num() * (o._num() if isinstance(o, SymBool) else o)

    def __rmul__(self, o):
        return (o._num() if isinstance(o, SymBool) else o) * self._num()

    def __truediv__(self, o):
        return self._num() / (o._num() if isinstance(o, SymBool) else o)

    def __float__(self):
        raise Unsupported("float() of a symbolic bool outside a shimmed module")

    def __eq__(self, o):
        if isinstance(o, SymBool):
            return SymBool(self.t == o.t)
        if isinstance(o, bool):
            return SymBool(self.t if o else z3.Not(self.t))
        if isinstance(o, (int, float)) and not isinstance(o, SymNum):
            # python: True == 1, False == 0
            if o == 1:
                return SymBool(self.t)
            if o == 0:
                return SymBool(z3.Not(self.t))
            return False
        return NotImplemented

    def __ne__(self, o):
        r = self.__eq__(o)
        if r is NotImplemented:
            return r
        if isinstance(r, SymBool):
            return SymBool(z3.Not(r.t))
        return not r

    def __hash__(self):
        return self.t.get_id()

    # python bools are ints: support the arithmetic the library may do on them
    def __add__(self, o):
        return SymNum(lift(self)) + o

    __radd__ = __add__


class SymNum(float):
    """float subclass with a z3 shadow term `t` (Real or Int sorted)."""

    def __new__(cls, t):
        o = float.__new__(cls, math.nan)
        o.t = t
        return o

    def __deepcopy__(self, memo):
        return self

    def __copy__(self):
        return self

    def __reduce_ex__(self, p):
        raise Unsupported("pickling a symbolic number")

    def __repr__(self):
        # never the python pretty-printer (seconds on big terms): C-level s-expression, truncated
        s = self.t.sexpr()
        return f"Sym({s if len(s) <= 160 else s[:160] + '...'})"

    __str__ = __repr__

    def __format__(self, spec):
        return repr(self)

    def __hash__(self):
        return self.t.get_id()

    def __float__(self):
        raise Unsupported("concretisation via float()")

    def __int__(self):
        raise Unsupported("concretisation via int()")

    def __trunc__(self):
        raise Unsupported("concretisation via trunc()")

    def __floor__(self):
        if self.t.sort().kind() == z3.Z3_INT_SORT:
            return self
        if ENGINE.round_mode == "exact":
            r = _fold(lambda a, b: math.floor(a), self.t, self.t)
            if r is not None:
                return r
        return SymNum(z3.ToInt(self.t))

    def __ceil__(self):
        if self.t.sort().kind() == z3.Z3_INT_SORT:
            return self
        if ENGINE.round_mode == "exact":
            r = _fold(lambda a, b: math.ceil(a), self.t, self.t)
            if r is not None:
                return r
        return SymNum(-z3.ToInt(-self.t))

    def __index__(self):
        raise Unsupported("concretisation via index")

    def is_integer(self):
        raise Unsupported("is_integer")

    def __bool__(self):
        return ENGINE.branch(self.t != 0)

    def _bin(self, o, f, pyf=None):
        ot = lift(o)
        if ot is None:
            return NotImplemented
        if pyf is not None and ENGINE.round_mode == "exact":
            r = _fold(pyf, self.t, ot)
            if r is not None:
                return r
        a, b = _coerce(self.t, ot)
        return SymNum(_fp(f(a, b)))

    def _rbin(self, o, f, pyf=None):
        ot = lift(o)
        if ot is None:
            return NotImplemented
        if pyf is not None and ENGINE.round_mode == "exact":
            r = _fold(pyf, ot, self.t)
            if r is not None:
                return r
        a, b = _coerce(ot, self.t)
        return SymNum(_fp(f(a, b)))

    def __add__(self, o):
        return self._bin(o, lambda a, b: a + b, operator.add)

    def __radd__(self, o):
        return self._rbin(o, lambda a, b: a + b, operator.add)

    def __sub__(self, o):
        return self._bin(o, lambda a, b: a - b, operator.sub)

    def __rsub__(self, o):
        return self._rbin(o, lambda a, b: a - b, operator.sub)

    def __mul__(self, o):
        td = _times_timedelta(self, o)
        if td is not None:
            return td
        return self._bin(o, _mul, operator.mul)

    def __rmul__(self, o):
        td = _times_timedelta(self, o)
        if td is not None:
            return td
        return self._rbin(o, _mul, operator.mul)

    def __neg__(self):
        if ENGINE.round_mode == "exact":
            r = _fold(lambda a, b: -a, self.t, self.t)
            if r is not None:
                return r
        return SymNum(-self.t)

    def __pos__(self):
        return self

    def __abs__(self):
        if ENGINE.round_mode == "exact":
            r = _fold(lambda a, b: abs(a), self.t, self.t)
            if r is not None:
                return r
        return SymNum(z3.If(self.t >= 0, self.t, -self.t))

    @staticmethod
    def _div(num, den):
        if ENGINE.round_mode == "exact":
            r = _fold(operator.truediv, num, den)   # ZeroDivisionError propagates like in the library
            if r is not None:
                return r
        num, den = _real(num), _real(den)
        if _is_const(den):
            if _const_frac(den) == 0:
                raise ZeroDivisionError("float division by zero")
            return SymNum(num / den)
        if ENGINE.div_mode == "fork":
            if ENGINE.branch(den == 0):
                raise ZeroDivisionError("float division by zero")
        else:
            ENGINE.note("symbolic denominators are assumed non-zero (division totality is C09's obligation)")
            ENGINE.assume(den != 0)
        if ENGINE.nl_uf:
            r = _DIV(num, den)
            ENGINE.uf_apps.setdefault(r.get_id(), r * den == num)
            return SymNum(r)
        return SymNum(_fp(num / den))

    def __truediv__(self, o):
        ot = lift(o)
        if ot is None:
            return NotImplemented
        return self._div(self.t, ot)

    def __rtruediv__(self, o):
        ot = lift(o)
        if ot is None:
            return NotImplemented
        return self._div(ot, self.t)

    def __floordiv__(self, o):
        ot = lift(o)
        if ot is not None and ENGINE.round_mode == "exact":
            r = _fold(operator.floordiv, self.t, ot)
            if r is not None:
                return r
        if ot is None or not _is_const(ot):
            raise Unsupported("floor division by a symbolic value")
        c = _const_frac(ot)
        if c <= 0:
            raise Unsupported("floor division by non-positive constant")
        if self.t.sort().kind() == z3.Z3_INT_SORT and c.denominator == 1:
            return SymNum(self.t / z3.IntVal(int(c)))  # z3 int div == floor for positive divisor
        return SymNum(z3.ToInt(_real(self.t) / z3.RealVal(c)))

    def __mod__(self, o):
        ot = lift(o)
        if ot is not None and ENGINE.round_mode == "exact":
            r = _fold(operator.mod, self.t, ot)
            if r is not None:
                return r
        if ot is None or not _is_const(ot):
            raise Unsupported("modulo by a symbolic value")
        c = _const_frac(ot)
        if c <= 0:
            raise Unsupported("modulo by non-positive constant")
        if self.t.sort().kind() == z3.Z3_INT_SORT and c.denominator == 1:
            return SymNum(self.t % z3.IntVal(int(c)))
        q = z3.ToInt(_real(self.t) / z3.RealVal(c))
        return SymNum(_real(self.t) - z3.RealVal(c) * z3.ToReal(q))

    def __pow__(self, o):
        if ENGINE.round_mode == "exact" and isinstance(o, (int, float)) and not isinstance(o, SymNum):
            r = _fold(operator.pow, self.t, lift(o))
            if r is not None:
                return r
        if isinstance(o, int) and not isinstance(o, SymNum) and 0 <= o <= 8:
            r = z3.RealVal(1)
            for _ in range(o):
                r = _mul(r, self.t)
            return SymNum(r)
        raise Unsupported("pow with symbolic base and non-small exponent")

    def __rpow__(self, o):
        raise Unsupported("pow with symbolic exponent")

    def _cmp(self, o, f):
        ot = lift(o)
        if ot is None:
            return NotImplemented
        a, b = _coerce(self.t, ot)
        return SymBool(z3.simplify(f(a, b)) if _is_const(a) and _is_const(b) else f(a, b))

    def __lt__(self, o):
        return self._cmp(o, lambda a, b: a < b)

    def __le__(self, o):
        return self._cmp(o, lambda a, b: a <= b)

    def __gt__(self, o):
        return self._cmp(o, lambda a, b: a > b)

    def __ge__(self, o):
        return self._cmp(o, lambda a, b: a >= b)

    def __eq__(self, o):
        ot = lift(o)
        if ot is None:
            return False
        a, b = _coerce(self.t, ot)
        if a.eq(b):
            return True
        return SymBool(a == b)

    def __ne__(self, o):
        ot = lift(o)
        if ot is None:
            return True
        a, b = _coerce(self.t, ot)
        if a.eq(b):
            return False
        return SymBool(a != b)

    def __round__(self, nd=None):
        if nd is None:
            raise Unsupported("round to int")
        if ENGINE.round_mode == "exact":
            r = _fold(lambda a, b: round(a, nd) if isinstance(a, float) else a, self.t, self.t)
            if r is not None:
                return r
        return SymNum(ENGINE.rnd(_real(self.t), nd))


# ---------------------------------------------------------------------- shims for module globals
class _FloatMeta(type):
    def __instancecheck__(cls, x):
        return isinstance(x, builtins.float)

    def __subclasscheck__(cls, c):
        return issubclass(c, builtins.float)

    def __call__(cls, x=0.0):
        if isinstance(x, SymNum):
            return x
        return builtins.float(x)


class sym_float(metaclass=_FloatMeta):
    pass


def _times_timedelta(num, o):
    """symbolic integer * timedelta (n * timeframe): a symbolic timedelta; anything else is left to the numeric path"""
    import datetime as _dtm
    from . import symtime
    if isinstance(o, symtime.SymTD):
        return o.__mul__(num)
    if isinstance(o, _dtm.timedelta):
        if num.t.sort().kind() != z3.Z3_INT_SORT:
            raise Unsupported("non-integer symbolic factor * timedelta")
        return symtime.SymTD(num.t * z3.IntVal(symtime._td_secs(o)))
    return None


class _IntMeta(type):
    def __instancecheck__(cls, x):
        return isinstance(x, builtins.int)

    def __subclasscheck__(cls, c):
        return issubclass(c, builtins.int)

    def __call__(cls, x=0, *a, **k):
        if isinstance(x, SymNum) and not a and not k:
            # int() truncates toward zero
            if x.t.sort().kind() == z3.Z3_INT_SORT:
                return x
            if ENGINE.round_mode == "exact":
                r = _fold(lambda p, q: math.trunc(p), x.t, x.t)
                if r is not None:
                    return r
            return SymNum(z3.If(x.t >= 0, z3.ToInt(x.t), -z3.ToInt(-x.t)))
        return builtins.int(x, *a, **k)


class sym_int(metaclass=_IntMeta):
    pass


def _anysym(xs):
    return any(isinstance(x, (SymNum, SymBool)) for x in xs)


def _extreme(args, kw, pick_gt, concrete):
    if len(args) == 1:
        args = list(args[0])
    else:
        args = list(args)
    if kw.get("key") is not None or not _anysym(args):
        if not args and "default" in kw:
            return kw["default"]
        return concrete(args, **{k: v for k, v in kw.items() if k == "key" and v is not None}) if args else concrete(args)
    acc = lift(args[0])
    if acc is None:
        raise TypeError("max/min of non-numeric")
    for a in args[1:]:
        at = lift(a)
        if at is None:
            raise TypeError("'>' not supported between instances of 'NoneType' and 'float'")
        acc, at = _coerce(acc, at)
        # python keeps the FIRST of equal elements: replace only on strict comparison
        acc = z3.If(at > acc, at, acc) if pick_gt else z3.If(at < acc, at, acc)
    return SymNum(acc)


def sym_max(*args, **kw):
    return _extreme(args, kw, True, builtins.max)


def sym_min(*args, **kw):
    return _extreme(args, kw, False, builtins.min)


def sym_sqrt(x):
    if not isinstance(x, SymNum):
        return math.sqrt(x)
    t = _real(x.t)
    if ENGINE.round_mode == "exact":
        t = z3.simplify(t)
        if _is_const(t):
            pv = _pyval(t)
            return SymNum(_from_py(math.sqrt(pv)))   # raises ValueError on a negative argument, as math.sqrt does
    if ENGINE.sqrt_mode == "assume":
        ENGINE.note("sqrt arguments are assumed non-negative (domain errors are C09's obligation)")
        ENGINE.assume(t >= 0)
    elif ENGINE.branch(t < 0):
        raise ValueError("math domain error")
    r = _SQRT(t)
    ENGINE.solver.add(r >= 0, r * r == t)
    return SymNum(r)


def sym_isfinite(x):
    if isinstance(x, SymNum):
        return True
    return math.isfinite(x)


def sym_isclose(a, b, rel_tol=1e-09, abs_tol=0.0):
    """math.isclose over symbolic numbers: |a-b| <= max(rel_tol*max(|a|,|b|), abs_tol)"""
    if not _anysym([a, b]):
        return math.isclose(a, b, rel_tol=rel_tol, abs_tol=abs_tol)
    a_, b_ = (a if isinstance(a, SymNum) else SymNum(_real(lift(a)))), (b if isinstance(b, SymNum) else SymNum(_real(lift(b))))
    d = abs(a_ - b_)
    big = sym_max(abs(a_), abs(b_))
    return (d <= big * rel_tol) | (d <= abs_tol)


def _guard_c_function(name, fn):
    """a C-level math function imported by name into a library module: it would read a symbolic number as its placeholder
    float - refuse instead of modelling it silently wrong"""
    def guarded(*a, **k):
        if _anysym(list(a) + list(k.values())):
            raise Unsupported(f"math.{name} of a symbolic number is not modelled")
        return fn(*a, **k)
    guarded.__name__ = name
    return guarded


def install_shims():
    """Override float/max/min/sqrt as module globals in every loaded hexital.* module.
    Nothing in /repo is edited; with plain python values the shims behave like the builtins."""
    mods = [m for n, m in list(sys.modules.items()) if (n == "hexital" or n.startswith("hexital.")) and m is not None]
    for m in mods:
        d = m.__dict__
        d["float"] = sym_float
        d["int"] = sym_int
        d["max"] = sym_max
        d["min"] = sym_min
        if "sqrt" in d:
            d["sqrt"] = sym_sqrt
        if "isclose" in d:
            d["isclose"] = sym_isclose
        for k, v in list(d.items()):
            if getattr(v, "__module__", None) == "math" and callable(v) and k not in ("sqrt", "isclose", "isfinite"):
                d[k] = _guard_c_function(k, v)
        if d.get("math") is math:
            d["math"] = _MathShim
    from . import symtime
    symtime.install()
    return len(mods)


class _MathShimT:
    def __getattr__(self, k):
        if k == "sqrt":
            return sym_sqrt
        if k == "isfinite":
            return sym_isfinite
        return getattr(math, k)


_MathShim = _MathShimT()
