#!/bin/sh
# Nothing is installed: verify that the two interpreters the checks use are usable offline.
set -e
python3-vt -c "import z3; print('z3', z3.get_version_string())"
PYTHONPATH=/repo python3-vt -c "import hexital; print('hexital (tooling venv) from', hexital.__file__)"
/venv/bin/python -c "import sys; sys.path.insert(0,'/repo'); import hexital; print('hexital (/venv) from', hexital.__file__)"
mkdir -p /verif/evidence /verif/replays
