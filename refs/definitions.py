"""Independent reference definitions of the shipped indicators, written from the property statements
(C04-C06) and the sources the docstrings cite - not from the implementation. They operate on plain
lists of numbers-or-terms (None = missing) and work unchanged on floats and on symbolic values:
only `K.max/K.min/K.abs/K.sqrt` are taken from the kit `K` handed in.

Conventions: series are aligned with the candle list; a window/recurrence value exists from the first
index at which all the inputs it needs exist."""
from __future__ import annotations

from fractions import Fraction


class Kit:
    """numeric kit for plain floats"""

    @staticmethod
    def max(*xs):
        return max(xs)

    @staticmethod
    def min(*xs):
        return min(xs)

    @staticmethod
    def abs(x):
        return abs(x)


def _all(xs):
    return all(x is not None for x in xs)


def _window(x, i, p):
    if i - p + 1 < 0:
        return None
    w = x[i - p + 1: i + 1]
    return w if _all(w) else None


def sma(x, p):
    out = []
    for i in range(len(x)):
        w = _window(x, i, p)
        out.append(None if w is None else sum(w) / p)
    return out


def wma(x, p):
    out = []
    den = p * (p + 1) / 2
    for i in range(len(x)):
        w = _window(x, i, p)
        # newest value has weight p, oldest weight 1
        out.append(None if w is None else sum(v * (j + 1) for j, v in enumerate(w)) / den)
    return out


def vwma(close, volume, p):
    out = []
    for i in range(len(close)):
        wc, wv = _window(close, i, p), _window(volume, i, p)
        if wc is None or wv is None:
            out.append(None)
        else:
            out.append(sum(c * v for c, v in zip(wc, wv)) / sum(wv))
    return out


def _recursive(x, p, alpha, seed):
    """r[t] = alpha*x[t] + (1-alpha)*r[t-1], started by seed(window) at the first full window"""
    out, prev = [], None
    for i in range(len(x)):
        if x[i] is None:
            out.append(None)
            prev = None
            continue
        if prev is not None:
            prev = alpha * x[i] + (1 - alpha) * prev
        else:
            w = _window(x, i, p)
            prev = None if w is None else seed(w)
        out.append(prev)
    return out


def ema(x, p, smoothing=2.0):
    return _recursive(x, p, smoothing / (p + 1.0), lambda w: sum(w) / p)


def rma(x, p):
    a = 1.0 / p

    def seed(w):  # decay-weighted mean of the first window (weights (1-a)^age)
        num = sum(((1 - a) ** age) * v for age, v in enumerate(reversed(w)))
        den = sum((1 - a) ** age for age in range(len(w)))
        return num / den

    return _recursive(x, p, a, seed)


def wilder_mean_seed(x, p):
    """Wilder smoothing seeded by the plain mean of the first p values: r = (r_prev*(p-1) + x)/p"""
    out, prev = [], None
    for i in range(len(x)):
        if x[i] is None:
            out.append(None)
            prev = None
            continue
        if prev is not None:
            prev = (prev * (p - 1) + x[i]) / p
        else:
            w = _window(x, i, p)
            prev = None if w is None else sum(w) / p
        out.append(prev)
    return out


def hma(x, p):
    half, root = int(p / 2), int(p ** 0.5)
    a, b = wma(x, half), wma(x, p)
    raw = [None if (u is None or v is None) else 2 * u - v for u, v in zip(a, b)]
    return wma(raw, root)


def true_range(K, high, low, close):
    out = [None]
    for i in range(1, len(close)):
        pc = close[i - 1]
        out.append(K.max(high[i] - low[i], K.abs(high[i] - pc), K.abs(low[i] - pc)))
    return out


def atr(K, high, low, close, p):
    return wilder_mean_seed(true_range(K, high, low, close), p)


def variance(x, p):
    """population variance of the last p values"""
    out = []
    for i in range(len(x)):
        w = _window(x, i, p)
        if w is None:
            out.append(None)
        else:
            m = sum(w) / p
            out.append(sum((v - m) * (v - m) for v in w) / p)
    return out


def window_high(K, x, n):
    """max over the current value and up to n-1 before it (truncated at the list start)"""
    return [K.max(*x[max(0, i - n + 1): i + 1]) for i in range(len(x))]


def window_low(K, x, n):
    return [K.min(*x[max(0, i - n + 1): i + 1]) for i in range(len(x))]


def donchian(K, high, low, p):
    out = []
    hh, ll = window_high(K, high, p), window_low(K, low, p)
    for i in range(len(high)):
        if i < p - 1:
            out.append(dict(DCL=None, DCM=None, DCU=None))
        else:
            out.append(dict(DCL=ll[i], DCM=(hh[i] + ll[i]) / 2, DCU=hh[i]))
    return out


def supertrend(K, high, low, close, p, mult):
    """bands HL2 +/- mult*ATR; a band only ratchets in the trend direction while the trend persists;
    trend flips up when close > previous upper band, down when close < previous lower band"""
    a = atr(K, high, low, close, p)
    out = []
    prev_u = prev_l = None
    prev_dir = 1
    for i in range(len(close)):
        if a[i] is None:
            out.append(dict(trend=None, direction=1, long=None, short=None))
            continue
        mid = (high[i] + low[i]) / 2
        up, lo = mid + mult * a[i], mid - mult * a[i]
        d = 1
        if prev_u is not None:
            if close[i] > prev_u:
                d = 1
            elif close[i] < prev_l:
                d = -1
            else:
                d = prev_dir
                if d == 1:
                    lo = K.max(lo, prev_l)
                else:
                    up = K.min(up, prev_u)
        prev_u, prev_l, prev_dir = up, lo, d
        out.append(dict(trend=lo if d == 1 else up, direction=d, long=lo if d == 1 else None, short=up if d == -1 else None))
    return out


def rsi(K, x, p):
    """Wilder: first average gain/loss = plain mean of the first p changes, then (prev*(p-1)+cur)/p;
    RSI = 100 - 100/(1+G/L), 100 when L == 0"""
    n = len(x)
    gains, losses = [None], [None]
    for i in range(1, n):
        ch = x[i] - x[i - 1]
        gains.append(K.max(ch, 0))
        losses.append(K.max(-ch, 0))
    g, l = wilder_mean_seed(gains, p), wilder_mean_seed(losses, p)
    out = []
    for i in range(n):
        if g[i] is None:
            out.append(None)
        elif l[i] == 0:
            out.append(100.0)
        else:
            out.append(100 - 100 / (1 + g[i] / l[i]))
    return out


def macd(x, fast, slow, signal):
    if slow < fast:
        fast, slow = slow, fast
    f, s = ema(x, fast), ema(x, slow)
    line = [None if (u is None or v is None) else u - v for u, v in zip(f, s)]
    sig = ema(line, signal)
    return [dict(MACD=m, signal=g, histogram=None if (m is None or g is None) else m - g) for m, g in zip(line, sig)]


def roc(x, p):
    return [None if i < p else (x[i] - x[i - p]) / x[i - p] * 100 for i in range(len(x))]


def stoch(K, high, low, close, p, slow, smooth_k):
    hh, ll = window_high(K, high, p), window_low(K, low, p)
    st = [None if i < p - 1 else (close[i] - ll[i]) / (hh[i] - ll[i]) * 100 for i in range(len(close))]
    k = sma(st, smooth_k)
    d = sma(k, slow)
    return [dict(stoch=a, k=b, d=c) for a, b, c in zip(st, k, d)]


def tsi(K, x, p, sp):
    m = [None] + [x[i] - x[i - 1] for i in range(1, len(x))]
    am = [None if v is None else K.abs(v) for v in m]
    num, den = ema(ema(m, p), sp), ema(ema(am, p), sp)
    return [None if (a is None or b is None) else 100 * (a / b) for a, b in zip(num, den)]


def aroon(high, low, p):
    """100*(p - bars since the most recent highest high / lowest low of the last p+1 candles)/p"""
    out = []
    for i in range(len(high)):
        if i < p:
            out.append(dict(AROONU=None, AROOND=None, AROONOSC=None))
            continue
        hb = lb = 0
        for back in range(1, p + 1):      # older candles only win when strictly more extreme
            if bool(high[i - back] > high[i - hb]):
                hb = back
            if bool(low[i - back] < low[i - lb]):
                lb = back
        u, d = (p - hb) / p * 100, (p - lb) / p * 100
        out.append(dict(AROONU=u, AROOND=d, AROONOSC=u - d))
    return out


def adx(K, high, low, close, p, ps):
    n = len(close)
    pdm, ndm = [None], [None]
    for i in range(1, n):
        up, down = high[i] - high[i - 1], low[i - 1] - low[i]
        pdm.append(up if bool((up > down) & (up > 0)) else 0)
        ndm.append(down if bool((down > up) & (down > 0)) else 0)
    a = atr(K, high, low, close, p)
    sp, sn = rma(pdm, p), rma(ndm, p)
    pdi, ndi, dx = [], [], []
    for i in range(n):
        if a[i] is None or sp[i] is None:
            pdi.append(None), ndi.append(None), dx.append(None)
            continue
        pi, ni = 100 * sp[i] / a[i], 100 * sn[i] / a[i]
        pdi.append(pi), ndi.append(ni)
        dx.append(100 * K.abs(pi - ni) / (pi + ni))
    ad = rma(dx, ps)
    return [dict(ADX=ad[i], DM_Plus=pdi[i], DM_Neg=ndi[i]) for i in range(n)]


def obv(close, volume):
    out = [volume[0]]
    for i in range(1, len(close)):
        if bool(close[i] > close[i - 1]):
            out.append(out[-1] + volume[i])
        elif bool(close[i] < close[i - 1]):
            out.append(out[-1] - volume[i])
        else:
            out.append(out[-1])
    return out


def vwap(high, low, close, volume):
    out, pv, vol = [], 0, 0
    for i in range(len(close)):
        tp = (high[i] + low[i] + close[i]) / 3
        pv, vol = pv + tp * volume[i], vol + volume[i]
        out.append(pv / vol)
    return out


def counter(x, value=True):
    out, c = [], 0
    for v in x:
        if v is not None:
            c = c + 1 if bool(v == value) else 0
        out.append(c)
    return out
