"""Reference predicates for C17, transcribed from the docstrings of hexital.analysis.movement and the property
statement (not from the code). They take the extracted reading series (None = missing) and the evaluated index."""


def _present(xs):
    return [x for x in xs if x is not None]


def above(a, b, i):
    return False if (a[i] is None or b[i] is None) else bool(a[i] > b[i])


def below(a, b, i):
    return False if (a[i] is None or b[i] is None) else bool(a[i] < b[i])


def _before(a, i, length):
    """the `length` candles before candle i (fewer at the list start), missing readings ignored"""
    return _present(a[max(0, i - length): i])


def rising(a, i, length):
    prev = _before(a, i, length)
    if a[i] is None or length < 1 or not prev:
        return False
    return all(bool(a[i] > p) for p in prev)


def falling(a, i, length):
    prev = _before(a, i, length)
    if a[i] is None or length < 1 or not prev:
        return False
    return all(bool(a[i] < p) for p in prev)


def mean_rising(a, i, length):
    prev = _before(a, i, length)
    if a[i] is None or length < 1 or not prev:
        return False
    return bool(a[i] > sum(prev) / len(prev))


def mean_falling(a, i, length):
    prev = _before(a, i, length)
    if a[i] is None or length < 1 or not prev:
        return False
    return bool(a[i] < sum(prev) / len(prev))


def window_incl(a, i, length):
    """current candle and the `length` candles before it, missing ignored"""
    return _present(a[max(0, i - length): i + 1])


def highest(K, a, i, length):
    w = window_incl(a, i, length)
    return K.max(*w) if (w and length >= 1) else None


def lowest(K, a, i, length):
    w = window_incl(a, i, length)
    return K.min(*w) if (w and length >= 1) else None


def value_range(K, a, i, length):
    w = window_incl(a, i, length)
    if length < 2 or len(w) < 2:
        return None
    return K.max(*w) - K.min(*w)


def extreme_bar(a, i, length, highest_):
    """offset (0 = current candle) of the extreme reading among the `length` bars ending at i; scanning from the
    newest bar back, an older bar only wins when strictly more extreme (most recent extreme on ties); bars with a
    missing reading are ignored (0 when no bar has a reading)."""
    best, off = None, 0
    for k in range(0, length):
        j = i - k
        if j < 0:
            break
        if a[j] is None:
            continue
        if best is None or (bool(a[j] > best) if highest_ else bool(a[j] < best)):
            best, off = a[j], k
    return off


def crossover(a, b, i, length):
    """a above b now and below it one candle earlier, at the current candle or within the last `length` candles"""
    for k in range(0, length):
        j = i - k
        if j < 1:
            break
        if above(a, b, j) and below(a, b, j - 1):
            return True
    return False


def crossunder(a, b, i, length):
    for k in range(0, length):
        j = i - k
        if j < 1:
            break
        if below(a, b, j) and above(a, b, j - 1):
            return True
    return False
