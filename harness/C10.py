"""C10 - outputs satisfy their structural invariants on every input.

Real code: every indicator's calculate() over symbolic candles, round_values, Indicator._set_reading.
Model: exact real arithmetic; round(x,nd) = fresh r with |r-x| <= h = 0.5*10^-nd, equal arguments share r,
monotone at the grid points -100, 0, 100 (every real rounding satisfies this). Where a stored value is re-derived
from other *stored* (already rounded) values the relation is asserted with the slack the property allows:
k*h for k roundings between the two sides."""
from harness.common import *  # noqa

PROPERTY = "C10"
INV = dict(round="eps", nl_uf=False, div="assume", sqrt="assume", timeout_ms=3000, fresh_timeout_ms=30000)
INV_UF = dict(INV, nl_uf=True)
H = 0.5e-4 + 1e-9  # default round_value = 4 (+ float fuzz: a tie rounds by exactly 0.5e-4 in the reals)
EXTRA = {"aroon": 1, "ADX": 0, "RSI": 2, "Supertrend": 2, "STOCH": 2, "TSI": 2, "KC": 2, "MACD": 2, "HMA": 2, "OBV": 3}


def obligations(tier):
    obs = []
    for name, variants in CATALOG.items():
        vs = variants if tier == "thorough" else variants[:1]
        for kw, w in vs:
            n = w + 1 + EXTRA.get(name, 3) + (1 if tier == "thorough" else 0)
            for tf in (None, "T2") if ((name not in EXTRA and name != "VWAP") or tier == "thorough") else (None,):
                nn = n if tf is None else min(2 * n - 1, n + 3)
                if name == "TSI":
                    # the range of TSI rests on |EMA(EMA(m))| <= EMA(EMA(|m|)): decided under ideal rounding (real
                    # rounding preserves it because it is monotone and odd - argued in DESIGN.md, not by the solver);
                    # the eps-model run keeps the structural checks
                    obs.append(Ob(f"{spec_name(('ind', name, kw))}/tf={tf}/n={nn}/range(ideal-rounding)", dict(spec=["ind", name, kw], n=nn, tf=tf, part="range"), dict(INV, round="ideal"),
                                  weight=nn * 20, budget_s=900 if tier == "quick" else 7200, max_paths=200000))
                obs.append(Ob(f"{spec_name(('ind', name, kw))}/tf={tf}/n={nn}", dict(spec=["ind", name, kw], n=nn, tf=tf, part=("rounded" if name == "TSI" else "all")), INV_UF if name == "ADX" else INV,
                              weight=nn * (20 if name in EXTRA else 1), budget_s=900 if tier == "quick" else 7200, max_paths=200000))
    # the relations under a candlestick type: they are stated about the candle the reading is stored on (the converted one)
    for name, kw, w in (("TR", dict(), 1), ("ATR", dict(period=2), 2), ("donchian", dict(period=2), 1), ("KC", dict(period=2), 2)):
        n = w + 4
        obs.append(Ob(f"{spec_name(('ind', name, kw))}/Heikin-Ashi candles/n={n}", dict(spec=["ind", name, kw], n=n, tf=None, part="all", extra=dict(candlestick_type="HA")), INV, weight=n * 3, budget_s=300, max_paths=200000))
    # the relations for a stream handed over as capitalised dicts / dicts / lists (the candle 'as given' is the reference)
    for name, kw, w in (("TR", dict(), 1), ("donchian", dict(period=2), 1), ("STOCH", dict(period=2, slow_period=2, smoothing_k=2), 3), ("HLA", dict(), 0), ("BBANDS", dict(period=2), 2), ("OBV", dict(), 0)):
        for feed in ("Dict", "dict", "list"):
            n = w + 3
            obs.append(Ob(f"{spec_name(('ind', name, kw))}/input as {feed}/n={n}", dict(spec=["ind", name, kw], n=n, tf=None, part="all", feed=feed), INV, weight=n * 3, budget_s=300, max_paths=200000))
    # the relations under naming / rounding / candlestick configurations
    for name, kw, w, extra in CONFIG_VARIANTS:
        if "round_value" in extra or name in ("TSI", "VWAP"):
            continue
        n = w + 1 + EXTRA.get(name, 3)
        obs.append(Ob(f"cfg:{spec_name(('ind', name, kw))}{extra}/n={n}", dict(spec=["ind", name, kw], n=n, tf=None, part="all", extra=extra), INV, weight=n * 5, budget_s=300, max_paths=200000))
    # the stored value is the rounding of the defined value: |stored - definition| <= k * 0.5e-4 under the eps rounding model
    # (k roundings lie between the raw candles and the stored value). Catches logic that consults already rounded
    # readings as if they were exact (stale window extremes, drifting running sums beyond the allowed slack).
    for name, kw, w, k in (("HL", dict(period=2), 0, 1), ("HL", dict(period=3), 0, 1), ("donchian", dict(period=2), 1, 2), ("HLA", dict(), 0, 1), ("TR", dict(), 1, 1),
                           ("WMA", dict(period=2), 1, 1), ("SMA", dict(period=2), 1, None), ("ROC", dict(period=2), 2, 1), ("OBV", dict(), 0, None), ("aroon", dict(period=2), 2, 3)):
        n = w + (5 if name in ("HL", "donchian", "SMA", "OBV") else 3)
        if name == "aroon":
            n = w + 2
        obs.append(Ob(f"{spec_name(('ind', name, kw))}/definition-within-rounding-slack/n={n}", dict(spec=["ind", name, kw], n=n, tf=None, part="definition", k=k), INV, weight=20, budget_s=300))
    # the same over an input reading of either sign that starts late (averages of oscillators: ROC, MACD, TSI are negative
    # half of the time): rounding must be as accurate below zero as above it
    for name, kw, w, k in (("WMA", dict(period=2), 1, 1), ("WMA", dict(period=3), 2, 1), ("SMA", dict(period=2), 1, None), ("EMA", dict(period=2), 1, 3), ("RMA", dict(period=2), 1, 3)):
        obs.append(Ob(f"{spec_name(('ind', name, kw))}/definition-within-rounding-slack/signed late input/n={w + 4}", dict(spec=["ind", name, kw], n=w + 4, tf=None, part="definition", k=k, late=1), INV, weight=20, budget_s=300))
    # an average over a BOOLEAN series (the candle's own positive / negative flag): True counts 1, False counts 0, the average
    # lies in [0, 1] and equals the share of True readings in its window
    for name, kw, w in (("SMA", dict(period=2, input_value="positive"), 1), ("SMA", dict(period=3, input_value="negative"), 2), ("WMA", dict(period=2, input_value="positive"), 1), ("EMA", dict(period=2, input_value="positive"), 1)):
        obs.append(Ob(f"{spec_name(('ind', name, kw))}/average of a boolean series/n={w + 4}", dict(spec=["ind", name, kw], n=w + 4, tf=None, part="bool-average"), INV, weight=20, budget_s=300, max_paths=200000))
    # composites whose helper series keep THEIR OWN (default, 4-decimal) rounding whatever the parent's round_value is:
    # stored == round_rv(definition) within 0.5*10^-rv for the parent's rounding + a few helper roundings at 4 decimals
    # (not Supertrend: its direction flips are discontinuous in the rounded bands; not ATR/EMA/...: a top-level recursive
    # indicator legitimately feeds its own coarsely rounded reading back)
    for name, kw, w in ((("KC", dict(period=2), 2), ("BBANDS", dict(period=2), 2)) if tier == "quick" else (("KC", dict(period=2), 2), ("BBANDS", dict(period=2), 2), ("MACD", dict(fast_period=2, slow_period=3, signal_period=2), 3))):
        for rv in ((1, 2) if tier == "quick" else (0, 1, 2, 3)):
            obs.append(Ob(f"{spec_name(('ind', name, kw))}/round_value={rv}/definition-within-rounding-slack", dict(spec=["ind", name, kw], n=w + 3, tf=None, part="definition-rv", rv=rv), INV, weight=30, budget_s=300))
    # every numeric reading is rounded to the indicator's round_value decimals: also for other settings than the default
    for name, kw, w in (("SMA", dict(period=2), 1), ("MACD", dict(fast_period=2, slow_period=3, signal_period=2), 3), ("BBANDS", dict(period=2), 2), ("ATR", dict(period=2), 2), ("VWAP", dict(), 0)):
        for rv in (0, 1, 2, 6):
            obs.append(Ob(f"{spec_name(('ind', name, kw))}/round_value={rv}", dict(spec=["ind", name, kw], n=w + 3, tf=None, part="rounded", rv=rv), INV, weight=5, budget_s=300))
    return obs


def is_rounded(ctx, x, nd=4):
    """the stored numeric leaf is an application of round(., nd)"""
    if x is None or isinstance(x, (bool, int)) or type(x).__name__ == "SymBool":
        return True
    if not ctx.symbolic or not hasattr(x, "t"):
        return isinstance(x, float) and round(x, nd) == x
    import z3
    t = x.t
    if z3.is_rational_value(t) or z3.is_int_value(t):
        return True
    if t.sort().kind() == z3.Z3_INT_SORT:
        return True
    nm = t.decl().name()
    return nm.startswith(f"rnd{nd}")


def run(ctx, P):
    kind, name, kw = P["spec"][:3]
    n = P["n"]
    cs = mk_candles(ctx, n)
    common = dict(timeframe=P["tf"]) if P.get("tf") else {}
    rv = P.get("rv", 4)
    if "rv" in P:
        common["round_value"] = rv
    common.update(P.get("extra") or {})
    xs = None
    if P.get("late") is not None:
        # the input is another indicator's reading X - any sign - that starts after `late` candles
        xs = [None] * P["late"] + [ctx.real(f"x{i}", -PRICE_HI, PRICE_HI) for i in range(P["late"], n)]
        for c, xv in zip(cs, xs):
            if xv is not None:
                c.indicators["X"] = xv
        kw = dict(kw, input_value="X")
    if P.get("feed"):
        # the stream handed over in another accepted encoding: the relations are stated about the candle AS GIVEN
        enc = {"Dict": lambda c: dict(Open=c.open, High=c.high, Low=c.low, Close=c.close, Volume=c.volume, Timestamp=c.timestamp),
               "dict": lambda c: dict(open=c.open, high=c.high, low=c.low, close=c.close, volume=c.volume, timestamp=c.timestamp),
               "list": lambda c: [c.open, c.high, c.low, c.close, c.volume, c.timestamp]}[P["feed"]]
        ind = build(name, kw, candles=[], **common)
        ind.append([enc(c) for c in cs[:2]])
        for c in cs[2:]:
            ind.append(enc(c))
        if not P.get("tf"):
            given = [dict(open=c.open, high=c.high, low=c.low, close=c.close, volume=c.volume) for c in cs]
            ctx.equal(f"{name}:the candles the relations are stated about are the candles given ({P['feed']} input)", [dict(open=c.open, high=c.high, low=c.low, close=c.close, volume=c.volume) for c in ind.candles], given)
    else:
        ind = build(name, kw, candles=cs, **common)
        ind.calculate()
    out = ind.as_list()
    cd = ind.candles
    ctx.observe("readings", out)
    p = kw.get("period")
    R = lambda label, cond, detail=None: ctx.require(f"{name}:{label}", cond, detail)
    part = P.get("part", "all")
    for i, r in enumerate(out):
        leaves = r.items() if isinstance(r, dict) else [(None, r)]
        for f, x in leaves:
            if part != "range":
                R("stored-value-is-rounded", is_rounded(ctx, x, rv), f"candle {i} field {f}: {x!r}")
    if part == "rounded":
        # every writer of readings rounds the same way: single-index and range recomputation, recalculate, live appends
        def recheck(tag, series):
            for i, r in enumerate(series):
                for f, x in (r.items() if isinstance(r, dict) else [(None, r)]):
                    R(f"stored-value-is-rounded[{tag}]", is_rounded(ctx, x, rv), f"candle {i} field {f}: {x!r}")
        m = len(ind.candles)            # (fewer than n on a collapsing timeframe)
        ind.calculate_index(m - 1)
        ind.calculate_index(-2)
        recheck("calculate_index(last), calculate_index(-2)", ind.as_list())
        ind.calculate_index(0, m)
        recheck("calculate_index(0, n)", ind.as_list())
        ind.recalculate()
        recheck("recalculate", ind.as_list())
        live = build(name, kw, candles=[], **common)
        for c in clone(cs):
            live.append(c)
        recheck("live appends", live.as_list())
        return
    if part == "bool-average":
        flag = kw["input_value"]
        ones = [(1.0 if bool(getattr(c, flag)) else 0.0) for c in cd]          # (forks on the comparison when symbolic)
        for i, r in enumerate(out):
            if r is None:
                continue
            R("boolean-average in [0,1]", (r >= -(i + 2) * H) & (r <= 1 + (i + 2) * H), f"candle {i}: {r!r}")      # (running updates: one rounding per step)
            if name == "SMA":
                ctx.close(f"{name}:share of True readings in the window", r, sum(ones[i - p + 1: i + 1]) / p, (i + 2) * H)
        R("first reading at the first full window", all(v is None for v in out[: p - 1]) and out[p - 1] is not None, f"{out!r}")
        return
    if part == "definition-rv":
        from harness.defs import expected
        ref = expected(ctx, name, kw, cs)
        h_rv = 0.5 * 10 ** (-rv) + 1e-9
        helper = 40 * H      # generous allowance for the 4-decimal helper series (EMA/ATR feedback, 2x multipliers); far below 0.5*10^-rv for rv <= 2
        for i, (g, r) in enumerate(zip(out, ref)):
            pairs = [(f, g.get(f) if isinstance(g, dict) else None, r[f]) for f in r] if isinstance(r, dict) else [(None, g, r)]
            for f, gv, rv_ in pairs:
                if isinstance(rv_, tuple) or f in ("direction",):
                    continue
                if rv_ is None or gv is None:
                    R(f"definition(rv={rv}):none-pattern[{f}]", rv_ is None and gv is None, f"candle {i}: {gv!r} vs {rv_!r}")
                else:
                    ctx.close(f"{name}:stored==round_{rv}(definition) within parent rounding + helper slack[{f}]", gv, rv_, h_rv + helper)
        return
    if part == "definition":
        from harness.defs import expected
        ref = expected(ctx, name, kw, cs, xs)
        for i, (g, r) in enumerate(zip(out, ref)):
            k = P.get("k") or (i + 2)          # running updates (SMA, OBV): one more rounding per step
            pairs = [(f, g.get(f) if isinstance(g, dict) else None, r[f]) for f in r] if isinstance(r, dict) else [(None, g, r)]
            for f, gv, rv_ in pairs:
                if rv_ is None or gv is None:
                    R(f"definition:none-pattern[{f}]", rv_ is None and gv is None, f"candle {i}: {gv!r} vs {rv_!r}")
                else:
                    ctx.close(f"{name}:stored==round(definition) within {P.get('k') or 'i+2'} roundings[{f}]", gv, rv_, k * H)
        return
    ok = lambda *xs: all(x is not None for x in xs)
    for i, r in enumerate(out):
        c = cd[i]
        prev = out[i - 1] if i else None
        if name == "RSI" and ok(r):
            R("in[0,100]", (r >= 0) & (r <= 100))
        if name == "STOCH":
            if ok(r["stoch"]):
                R("stoch in[0,100]", (r["stoch"] >= 0) & (r["stoch"] <= 100))
            for f in ("k", "d"):
                if ok(r[f]):
                    s = (2 * n + 2) * H   # running SMA updates accumulate one rounding per step
                    R(f"{f} in[0,100]+-slack", (r[f] >= -s) & (r[f] <= 100 + s))
        if name == "aroon" and ok(r["AROONU"]):
            R("up/down in[0,100]", (r["AROONU"] >= 0) & (r["AROONU"] <= 100) & (r["AROOND"] >= 0) & (r["AROOND"] <= 100))
            R("osc==up-down", abs(r["AROONOSC"] - (r["AROONU"] - r["AROOND"])) <= 3 * H)
        if name == "ADX":
            # compositional: each DX (one division) lies in [0,100]; ADX is a Wilder average of the DX values so far
            dx = [ind.read_candle(x, f"{ind.name}_data.dx") for x in cd[: i + 1]]
            dx = [v for v in dx if v is not None]
            if dx:
                R("DX in[0,100]", (dx[-1] >= 0) & (dx[-1] <= 100))
            if ok(r["ADX"]):
                if dx:
                    R("ADX within hull of DX", (r["ADX"] >= ctx.min(*dx) - n * H) & (r["ADX"] <= ctx.max(*dx) + n * H))
                else:
                    R("ADX in[0,100]", (r["ADX"] >= -n * H) & (r["ADX"] <= 100 + n * H))
        if name == "TSI" and ok(r):
            # compositional: |double-smoothed momentum| <= double-smoothed |momentum| on the stored (rounded) helper
            # series (rounding is monotone and odd), and given that one division keeps the ratio in [-100,100]
            a, b = ind.read_candle(c, f"{ind.name}_second"), ind.read_candle(c, f"{ind.name}_abs_second")
            if a is not None and b is not None:
                R("|num|<=den", (a <= b) & (-a <= b))
            R("in[-100,100]", (r >= -100) & (r <= 100))
        if name == "TR" and ok(r):
            R("TR>=high-low>=0", (r >= (c.high - c.low) - H) & (c.high - c.low >= 0))
        if name == "ATR" and ok(r):
            R(">=0", r >= 0)
        if name == "STDEV" and ok(r):
            R(">=0", r >= 0)
        if name == "BBANDS" and ok(r["BBM"]):
            R("lower<=middle<=upper", (r["BBL"] <= r["BBM"]) & (r["BBM"] <= r["BBU"]))  # exact: rounding is monotone
        if name == "KC" and ok(r["band"]):
            R("lower<=middle<=upper", (r["lower"] <= r["band"]) & (r["band"] <= r["upper"]))
        if name == "donchian" and ok(r["DCU"]):
            R("lower<=middle<=upper", (r["DCL"] <= r["DCM"]) & (r["DCM"] <= r["DCU"]))
            R("encloses-own-candle", (r["DCU"] >= c.high - H) & (r["DCL"] <= c.low + H))
            R("middle==mean", abs(r["DCM"] - (r["DCU"] + r["DCL"]) / 2) <= 2 * H)
        if name == "HL":
            R("encloses-own-candle", (r["high"] >= c.high - H) & (r["low"] <= c.low + H))
        if name == "MACD" and ok(r["histogram"]):
            R("histogram==MACD-signal", abs(r["histogram"] - (r["MACD"] - r["signal"])) <= 2 * H)
        if name == "Supertrend":
            d = r["direction"]
            R("direction in {+1,-1}", (d == 1) | (d == -1))
            if ok(r["trend"]):
                one = (r["long"] is None) != (r["short"] is None)
                R("exactly-one-of-long/short", one)
                if one:
                    side = r["long"] if r["long"] is not None else r["short"]
                    R("set-side==trend", side == r["trend"])
                    R("side-matches-direction", (d == 1) if r["long"] is not None else (d == -1))
            else:
                R("no-side-without-trend", r["long"] is None and r["short"] is None)
        if name in ("SMA", "WMA", "VWMA", "EMA", "RMA") and ok(r):
            field = kw.get("input_value", "close")
            w = [getattr(x, field) for x in (cd[max(0, i - p + 1): i + 1] if name in ("SMA", "WMA", "VWMA") else cd[: i + 1])]
            s = (n + 1) * H
            R("within-input-range", (r >= ctx.min(*w) - s) & (r <= ctx.max(*w) + s))
        if name == "OBV" and prev is not None:
            step = r - prev
            R("step in {0,+-volume}", (abs(step) <= 2 * H) | (abs(step - c.volume) <= 2 * H) | (abs(step + c.volume) <= 2 * H))
        if name == "Counter":
            R("non-negative-int", isinstance(r, int) and not isinstance(r, bool) and r >= 0, repr(r))
            if prev is not None:
                R("grows-by-one-or-resets", r == prev + 1 or r == 0, f"{prev}->{r}")
        if name == "VWAP" and ok(r):
            lo = ctx.min(*[x.low for x in cd[: i + 1]])
            hi = ctx.max(*[x.high for x in cd[: i + 1]])
            R("within-price-range-or-zero-volume", ((r >= lo - H) & (r <= hi + H)) | (sum(x.volume for x in cd[: i + 1]) == 0))


META = dict(
    bounds=dict(quick="n = warm-up+4 candles (value-branching indicators +1..3), smallest legal periods, round_value 4 (round_value 0/1/2/6 for the rounded-ness clause on five indicators); 'stored == round(definition)' within k roundings for HL, Donchian, HLA, TR, WMA, SMA, ROC, OBV, Aroon under the eps model; base timeframe, and T2 for the non-branching indicators",
                thorough="n+1, periods 2 and 3, T2 for all"),
    stubs=["float arithmetic -> exact real arithmetic", "round -> eps model with grid monotonicity", "max/min/abs -> If-terms", "symbolic denominators assumed non-zero (C09 owns the zero cases)", "ADX: mul/div abstracted during path exploration, exact at assertions"],
    assumptions=["relations between separately rounded stored values are asserted with slack k*0.5e-4 as the property allows", "the rounded-ness check is structural: the stored term must be a round() application (or an int/bool/None)"],
    explanation="one assertion per relation named in the property, decided by z3 for all candle values on every feasible path",
)

# families added after the seeding rounds (kept next to the original bound so that MANIFEST / evidence stay current)
META["bounds"] = dict(META["bounds"], quick=META["bounds"]["quick"] + "; added after the seeding rounds: " + 'rounded-ness after every writer of readings; definitions within k half-units for signed late inputs; relations for streams given as capitalised dicts / dicts / lists; averages of a boolean series; TR / ATR / Donchian / KC on Heikin-Ashi candles')
