"""C11 - Heikin-Ashi conversion follows its recurrence under every append schedule.

Real code: CandlestickType.conversion/_find_conv_index, HeikinAshi.convert_candle, Candle.save_clean_values/
recover_clean_values/reset_candle/merge/tag, CandleManager._tasks (collapse -> convert -> trim), through
Indicator(candlestick_type='HA') and Hexital(candlestick_type='HA'). Oracle: the four-line recurrence below."""
from harness.common import *  # noqa
from harness.tfcommon import ref_resample, tf_secs

PROPERTY = "C11"
CFG = dict(round="uf", nl_uf=True, div="assume", sqrt="assume")


def obligations(tier):
    obs = []
    n = 4 if tier == "quick" else 5
    for tf in (None, "T2"):
        for host in ("indicator", "hexital"):
            for ind in (("SMA", dict(period=2)), ("TR", dict())):
                nn = n if tf is None else n + 2
                obs.append(Ob(f"{host}/{ind[0]}/tf={tf}/n={nn}", dict(tf=tf, host=host, ind=list(ind), n=nn), CFG, weight=nn, budget_s=900))
    # a Hexital on the base timeframe whose MEMBER collapses to T2: the member's manager is seeded from copies of the
    # (already converted) base candles. start=2: the first candle sits alone on a bucket edge
    for start in (1, 2):
        nn = n + 2
        obs.append(Ob(f"hexital-member-tf/SMA/tf=T2/start={start}/n={nn}", dict(tf="T2", host="hexital-member", ind=["SMA", dict(period=2)], n=nn, start=start), CFG, weight=nn, budget_s=900))
        obs.append(Ob(f"indicator/SMA/tf=T2/start={start}/n={nn}", dict(tf="T2", host="indicator", ind=["SMA", dict(period=2)], n=nn, start=2), CFG, weight=nn, budget_s=900)) if start == 2 else None
    # three raw candles per bucket (40-second grid): a bucket keeps receiving merges after its first one
    for host in ("indicator", "hexital", "hexital-member"):
        nn = 7 if tier == "quick" else 8
        obs.append(Ob(f"{host}/SMA/tf=T2/step=40s/n={nn}", dict(tf="T2", host=host, ind=["SMA", dict(period=2)], n=nn, step=40), CFG, weight=nn, budget_s=900))
    # any four non-negative prices per candle (a close-only feed padded with zeros, stale high/low columns): the recurrence
    # is stated on the numbers as given and does not assume low <= open, close <= high
    for host in ("indicator", "hexital"):
        for tf in (None, "T2"):
            for ind in (("SMA", dict(period=2, input_value="high")), ("SMA", dict(period=2, input_value="low"))):
                nn = n if tf is None else n + 2
                obs.append(Ob(f"{host}/SMA({ind[1]['input_value']})/tf={tf}/any OHLC values/n={nn}", dict(tf=tf, host=host, ind=list(ind), n=nn, any_ohlc=True), CFG, weight=nn, budget_s=900))
    # maintenance operations between the appends (purge, recalculate, a further member added, a member added and removed):
    # 'each candle is converted exactly once' whatever is done to the readings in between
    for host in ("indicator", "hexital", "hexital-member"):
        for tf in ((None, "T2") if host != "hexital-member" else ("T2",)):
            nn = n + 1 if tf is None else n + 3
            obs.append(Ob(f"{host}/SMA/tf={tf}/maintenance between appends/n={nn}", dict(tf=tf, host=host, ind=["SMA", dict(period=2)], n=nn, maintenance=True), CFG, weight=nn * 3, budget_s=900))
    # Heikin-Ashi under a candle lifespan: the retained candles are the tail of the same recurrence, however the
    # stream was fed (also when a whole window expires within one call)
    for host in ("indicator", "hexital"):
        nn = 6 if tier == "quick" else 7
        obs.append(Ob(f"{host}/SMA/lifespan=2min/n={nn}", dict(host=host, ind=["SMA", dict(period=2)], n=nn, tf=None, lifespan=120), CFG, fn="run_lifespan", weight=nn, budget_s=900))
    return obs


def maintain(P, host, ind, k, pre):
    """before every append but the first, one maintenance operation (rotating through them)"""
    if not P.get("maintenance") or not k:
        return
    ops = ["purge", "recalculate", "purge-name", "add-remove", "calculate"]
    op = ops[(k + pre) % len(ops)]
    if op == "purge":
        host.purge()
    elif op == "recalculate":
        host.recalculate()
    elif op == "calculate":
        host.calculate()
    elif op == "purge-name":
        host.purge(ind.name) if P["host"] != "indicator" else host.purge()
    elif op == "add-remove" and P["host"] != "indicator":
        extra_member = build("EMA", dict(period=2, name_suffix="guest"), **({"timeframe": "T3"} if k % 2 else {}))
        host.add_indicator(extra_member)
        host.calculate()
        host.remove_indicator(extra_member.name)


def run_lifespan(ctx, P):
    from datetime import timedelta
    n = P["n"]
    name, kw = P["ind"]
    _, _, Candle, _, Hexital = lib()
    cs = mk_candles(ctx, n, zero_ok=True)
    raw = [dict(ts=ctx.sec_of(c.timestamp), open=c.open, high=c.high, low=c.low, close=c.close, volume=c.volume) for c in cs]
    ha = ha_reference(ctx, raw)
    keep = 3       # 1-minute grid, 2-minute lifespan
    common = dict(candlestick_type="HA", candles_lifespan=timedelta(seconds=P["lifespan"]))
    for pre, chunks in ((0, [1] * n), (n, []), (0, [n]), (1, [n - 1]), (0, [2, n - 2]), (2, [1] * (n - 2))):
        lab = f"[preload={pre},chunks={'+'.join(map(str, chunks))}]"
        src = clone(cs)
        if P["host"] == "indicator":
            ind = build(name, kw, candles=src[:pre], **common)
            ind.calculate()
            host = ind
        else:
            ind = build(name, kw)
            host = Hexital("h", src[:pre], [ind], **common)
            host.calculate()
        pos = pre
        for k, c in enumerate(chunks):
            maintain(P, host, ind, k, pre)
            part = src[pos:pos + c]
            host.append(part if c > 1 else part[0])
            pos += c
        got = [dict(ts=ctx.sec_of(c.timestamp), open=c.open, high=c.high, low=c.low, close=c.close, volume=c.volume) for c in ind.candles]
        if pre == 0 and chunks == [1] * n:
            ctx.observe("ha", got)
        if ctx.require("retained-count" + lab, len(got) == keep, f"{len(got)} candles retained"):
            ctx.equal("retained HA candles == tail of the recurrence" + lab, got, ha[-keep:])


def ha_reference(ctx, raw):
    """raw: list of dict(open, high, low, close, volume, ts) -> HA candles by the recurrence"""
    out = []
    for i, r in enumerate(raw):
        hc = (r["open"] + r["high"] + r["low"] + r["close"]) / 4
        ho = (r["open"] + r["close"]) / 2 if i == 0 else (out[-1]["open"] + out[-1]["close"]) / 2
        out.append(dict(ts=r["ts"], open=ho, high=ctx.max(r["high"], ho, hc), low=ctx.min(r["low"], ho, hc), close=hc, volume=r["volume"]))
    return out


def schedules(n):
    out = [(0, [1] * n), (1, [1] * (n - 1)), (n, []), (0, [n]), (2, [1] * (n - 2))]
    for k in range(1, n):
        out.append((0, [k, n - k]))
    return out


def run(ctx, P):
    n, tf = P["n"], P["tf"]
    name, kw = P["ind"]
    _, _, Candle, _, Hexital = lib()
    step = P.get("step", 60)
    cs = mk_candles(ctx, n, zero_ok=True, step=step, start=GRID0 + step * P.get("start", 1), wellformed=not P.get("any_ohlc"))     # the HA formulas have no division: prices of exactly 0 are inside the domain
    if tf:
        ts = [ctx.sec_of(c.timestamp) for c in cs]
        raw = [dict(ts=b["ts"], open=b["open"], high=b["high"], low=b["low"], close=b["close"], volume=b["volume"]) for b in ref_resample(ctx, cs, ts, tf_secs(tf))]
    else:
        raw = [dict(ts=ctx.sec_of(c.timestamp), open=c.open, high=c.high, low=c.low, close=c.close, volume=c.volume) for c in cs]
    ha = ha_reference(ctx, raw)
    # the same indicator fed the reference HA candles as ordinary candles
    plain = build(name, kw, candles=[Candle(h["open"], h["high"], h["low"], h["close"], h["volume"]) for h in ha])
    plain.calculate()
    exp_readings = plain.as_list()
    common = dict(candlestick_type="HA")
    if tf:
        common["timeframe"] = tf
    for pre, chunks in schedules(n):
        lab = f"[preload={pre},chunks={'+'.join(map(str, chunks))}]"
        src = clone(cs)
        if P["host"] == "indicator":
            ind = build(name, kw, candles=src[:pre], **common)
            ind.calculate()
            host = ind
        elif P["host"] == "hexital-member":
            ind = build(name, kw, timeframe=tf)
            host = Hexital("h", src[:pre], [ind], candlestick_type="HA")
            host.calculate()
        else:
            ind = build(name, kw)
            host = Hexital("h", src[:pre], [ind], **common)
            host.calculate()
        pos = pre
        for k, c in enumerate(chunks):
            maintain(P, host, ind, k, pre)
            part = src[pos:pos + c]
            host.append(part if c > 1 else part[0])
            pos += c
        got = [dict(ts=ctx.sec_of(c.timestamp), open=c.open, high=c.high, low=c.low, close=c.close, volume=c.volume) for c in ind.candles]
        if pre == 0 and chunks == [1] * n:
            ctx.observe("ha", got)
        if not ctx.require("candle-count" + lab, len(got) == len(ha), f"{len(got)} vs {len(ha)}"):
            continue
        ctx.equal("HA-candles==recurrence" + lab, got, ha)
        ctx.equal("readings-on-converted-values" + lab, ind.as_list(), exp_readings)
        for i, c in enumerate(ind.candles):
            ctx.require("tagged" + lab, c.tag == "Heikin-Ashi", f"candle {i} tag {c.tag!r}")
            cv = c.clean_values
            ctx.require("raw-values-recoverable" + lab, all(k in cv for k in ("open", "high", "low", "close")), f"candle {i} clean_values keys {sorted(cv)}")
            if all(k in cv for k in ("open", "high", "low", "close")):
                ctx.equal("clean_values==raw" + lab, [cv["open"], cv["high"], cv["low"], cv["close"]], [raw[i]["open"], raw[i]["high"], raw[i]["low"], raw[i]["close"]])


META = dict(
    bounds=dict(quick="n=4 candles (6 under T2), SMA(2) and TR on HA candles, standalone and inside a Hexital; schedules: from empty one-by-one, 1 or 2 preloaded + singles, all at construction, one chunk, every two-chunk split; plus Heikin-Ashi under a 2-minute lifespan (6 candles, six schedules incl. all at construction and one long chunk); plus a Heikin-Ashi Hexital whose member collapses to T2, stream starting one minute after / exactly on a bucket edge",
                thorough="n=5 (7 under T2)"),
    stubs=["exact real arithmetic, uninterpreted rounding", "max/min -> If-terms"],
    assumptions=["1-minute concrete grid; collapsed raw candles taken from the reference resampler (C03)"],
    explanation="converted OHLC, tags, saved raw values and readings compared with the HA recurrence for all candle values under each schedule",
)

# families added after the seeding rounds (kept next to the original bound so that MANIFEST / evidence stay current)
META["bounds"] = dict(META["bounds"], quick=META["bounds"]["quick"] + "; added after the seeding rounds: " + '40-second grid; maintenance operation before every append but the first; any four non-negative prices per candle')
