"""C20 - all ways of asking for a reading give the same answer.

Real code: Indicator.reading/prev_reading/as_list/read_candle/has_reading/reading_count, Hexital.reading/
prev_reading/reading_as_list/has_reading, utils.candles.reading_by_index/reading_by_candle/_nested_indicator/
reading_count, utils.indexing.valid_index/absindex. Candle values are symbolic, so readings that are exactly
0 / False are inside the domain; the position is a symbolic index in [-N, N-1] (the engine forks over it)."""
from harness.common import *  # noqa

PROPERTY = "C20"
CFG = dict(round="eps", nl_uf=True, div="assume", sqrt="assume")
SPECS = [("ind", "OBV", {}, None), ("ind", "SMA", dict(period=2), None), ("ind", "MACD", dict(fast_period=2, slow_period=3, signal_period=2), ["MACD", "signal", "histogram"]),
         ("ind", "Supertrend", dict(period=2), ["trend", "direction", "long", "short"]), ("ind", "Counter", dict(input_value="positive"), None),
         ("amorph", "positive", {}, None), ("amorph", "highestbar", dict(indicator="high", length=2), None), ("ind", "BBANDS", dict(period=2), ["BBL", "BBM", "BBU"]),
         ("ind", "VWAP", {}, None), ("ind", "ROC", dict(period=2), None)]


def obligations(tier):
    obs = []
    for kind, name, kw, fields in SPECS:
        for tf in (None, "T2"):
            n = 5 if tf is None else 8
            if tier == "thorough":
                n += 1
            obs.append(Ob(f"{spec_name((kind, name, kw))}/tf={tf}/n={n}", dict(spec=[kind, name, kw], fields=fields, tf=tf, n=n), CFG, weight=n * 3, budget_s=900, max_paths=100000))
    # the Hexital's own timeframe coarser than a member's: the member's candle list is LONGER than the base list
    for kind, name, kw, fields in (SPECS[1], SPECS[2], SPECS[9]):
        obs.append(Ob(f"{spec_name((kind, name, kw))}/hexital-T4-member-T2/n=9", dict(spec=[kind, name, kw], fields=fields, tf="T2", n=9, hextf="T4"), CFG, weight=30, budget_s=900, max_paths=100000))
    # members that were built and calculated on other candles before being handed to the Hexital
    for kind, name, kw, fields in (SPECS[1], SPECS[2], SPECS[7]):
        for tf in (None, "T2"):
            n = 5 if tf is None else 8
            obs.append(Ob(f"{spec_name((kind, name, kw))}/tf={tf}/member pre-attached to other candles/n={n}", dict(spec=[kind, name, kw], fields=fields, tf=tf, n=n, preattached=True), CFG, weight=n * 3, budget_s=900, max_paths=100000))
    # a member without a timeframe of its own inside a Hexital that collapses to T2, next to a member that explicitly asks for
    # that very timeframe (two candle lists with the same timeframe exist side by side)
    for kind, name, kw, fields in (SPECS[1], SPECS[2]):
        for pf in (False, True):
            obs.append(Ob(f"{spec_name((kind, name, kw))}/hexital-T2 + partner explicitly on T2/partner-first={pf}/n=7", dict(spec=[kind, name, kw], fields=fields, tf=None, n=7, hextf="T2", partner_tf="T2", partner_first=pf), CFG, weight=30, budget_s=900, max_paths=100000))
    # the same agreement at every point of a live history (open-bucket merges at constant length, lifespan trimming,
    # recalculation): an accessor that answers from remembered state goes stale exactly there
    for kind, name, kw, fields in SPECS[:4] + SPECS[7:8]:
        for mode in ("T2", "lifespan", "maintenance", "T2-cotenant"):
            n = 6 if tier == "quick" else 8
            obs.append(Ob(f"live/{mode}/{spec_name((kind, name, kw))}/n={n}", dict(spec=[kind, name, kw], fields=fields, mode=mode, n=n), CFG, fn="run_live", weight=n * 4, budget_s=600, max_paths=100000))
    return obs


def agree(ctx, label, ind, hx, names):
    cds = ind.candles
    name = ind.name
    for nm in names:
        short = nm.replace(name, "X")
        direct = []
        for c in cds:
            d = c.indicators.get(name)
            if "." in nm:
                d = d.get(nm.split(".")[1]) if isinstance(d, dict) else d
            direct.append(d)
        ctx.equal(f"{label}: as_list==direct[{short}]", ind.as_list(nm), direct)
        # direct inspection of the candles the Hexital hands out for the member's timeframe
        via_hx = []
        for c in (hx.candles(ind.timeframe) if ind.timeframe else hx.candles()):
            d = c.indicators.get(name)
            if "." in nm:
                d = d.get(nm.split(".")[1]) if isinstance(d, dict) else d
            via_hx.append(d)
        ctx.equal(f"{label}: Hexital.candles(timeframe) inspected==direct[{short}]", via_hx, direct)
        ctx.equal(f"{label}: Hexital.reading_as_list==direct[{short}]", hx.reading_as_list(nm), direct)
        if direct:
            ctx.equal(f"{label}: reading()==direct[-1][{short}]", ind.reading(nm), direct[-1])
            ctx.equal(f"{label}: Hexital.reading==direct[-1][{short}]", hx.reading(nm), direct[-1])
            ctx.equal(f"{label}: reading(0)==direct[0][{short}]", ind.reading(nm, index=0), direct[0])
            ctx.require(f"{label}: Hexital.has_reading[{short}]", hx.has_reading(nm) == (direct[-1] is not None))
            trailing = 0
            for v in reversed(direct):
                if v is None:
                    break
                trailing += 1
            ctx.require(f"{label}: reading_count[{short}]", ind.reading_count(nm) == trailing, f"{ind.reading_count(nm)} vs {trailing}")
        # every explicit position, counted from the front and from the back, through the Indicator and through the Hexital
        for posn in range(len(direct)):
            for idx in (posn, posn - len(direct)):
                ctx.equal(f"{label}: Indicator.reading(index)==direct[{short}]", ind.reading(nm, index=idx), direct[posn])
                ctx.equal(f"{label}: Hexital.reading(index)==direct[{short}]", hx.reading(nm, index=idx), direct[posn])
        if len(direct) >= 2:
            ctx.equal(f"{label}: prev_reading==direct[-2][{short}]", ind.prev_reading(nm), direct[-2])
            ctx.equal(f"{label}: Hexital.prev_reading==direct[-2][{short}]", hx.prev_reading(nm), direct[-2])


def run_live(ctx, P):
    from datetime import timedelta
    _, _, Candle, _, Hexital = lib()
    spec = tuple(P["spec"])
    n, mode, fields = P["n"], P["mode"], P["fields"]
    cs = mk_candles(ctx, n)
    extra, hkw = {}, {}
    if mode in ("T2", "T2-cotenant"):
        extra = dict(timeframe="T2")
    if mode == "lifespan":
        hkw = dict(candles_lifespan=timedelta(minutes=2))
    ind = build_any(spec, **extra)
    others = [build("EMA", dict(period=3))]
    if mode == "T2-cotenant":
        # another member lives on the same timeframe and leaves half way through
        others.append(build("SMA", dict(period=2), timeframe="T2", name_suffix="cotenant"))
    hx = Hexital("hx", [], [ind] + others, **hkw)
    names = [ind.name] + [f"{ind.name}.{f}" for f in (fields or [])]
    src = clone(cs)
    early = hx.candles(ind.timeframe) if ind.timeframe else hx.candles()        # asked for before any candle has arrived
    for k, c in enumerate(src):
        hx.append(c)
        agree(ctx, f"after append {k + 1}", ind, hx, names)
        if k == 0 or k == n - 1:
            now = hx.candles(ind.timeframe) if ind.timeframe else hx.candles()
            ctx.require("Hexital.candles(timeframe) is the member's candle list, asked for before or after data arrives", early is now and now is ind.candles, f"after append {k + 1}: early is now = {early is now}, now is the member's list = {now is ind.candles}")
        if mode == "T2-cotenant" and k == n // 2:
            hx.remove_indicator(others[-1].name)
            agree(ctx, "after the co-tenant was removed", ind, hx, names)
        if mode == "maintenance" and k == n - 2:
            hx.purge(ind.name)
            agree(ctx, "after purge", ind, hx, names)
            hx.calculate()
            agree(ctx, "after purge+calculate", ind, hx, names)
            hx.recalculate()
            agree(ctx, "after recalculate", ind, hx, names)
            hx.calculate_index(ind.name, -1)
            agree(ctx, "after calculate_index(-1)", ind, hx, names)
            # only the newest candle computed, the rest filled in afterwards: the walk passes candles that already hold a reading
            hx.purge(ind.name)
            hx.calculate_index(ind.name, -1)
            agree(ctx, "after purge+calculate_index(-1)", ind, hx, names)
            hx.calculate()
            agree(ctx, "after purge+calculate_index(-1)+calculate", ind, hx, names)
            hx.purge(ind.name)
            ind.calculate_index(0, 2)
            hx.calculate()
            agree(ctx, "after purge+calculate_index(0,2)+calculate", ind, hx, names)
    ctx.observe("final", ind.as_list())


def same_leaf(ctx, label, a, b):
    ctx.equal(label, a, b)


def run(ctx, P):
    _, _, Candle, _, Hexital = lib()
    spec = tuple(P["spec"])
    n, tf, fields = P["n"], P["tf"], P["fields"]
    cs = mk_candles(ctx, n)
    extra = dict(timeframe=tf) if tf else {}
    ind = build_any(spec, **extra)
    if P.get("preattached"):
        # the member is an Indicator object that already lives on OTHER candles (built and calculated there) when it is
        # handed to the Hexital: from then on it belongs to the Hexital's candles
        other = mk_candles(ctx, n + 3, prefix="other")
        ind = build_any(spec, candles=other, **extra)
        ind.calculate()
    if P.get("hextf"):
        partner = build("EMA", dict(period=3), **({"timeframe": P["partner_tf"]} if P.get("partner_tf") else {}))
        hx = Hexital("hx", [], [ind, partner] if not P.get("partner_first") else [partner, ind], timeframe=P["hextf"])
        for c in clone(cs):
            hx.append(c)
    else:
        hx = Hexital("hx", clone(cs), [ind, build("EMA", dict(period=3))])
        hx.calculate()
    name = ind.name
    cds = ind.candles
    N = len(cds)
    ctx.observe("readings", ind.as_list())
    names = [name] + [f"{name}.{f}" for f in (fields or [])]
    i = ctx.integer("index", -N, N - 1)
    pos = i if i >= 0 else N + i
    for nm in names:
        direct = cds[pos].indicators.get(name)
        if "." in nm:
            direct = direct.get(nm.split(".")[1]) if isinstance(direct, dict) else direct
        lst = ind.as_list(nm)
        same_leaf(ctx, f"Indicator.reading(index)==direct[{nm.replace(name, 'X')}]", ind.reading(nm, index=i), direct)
        same_leaf(ctx, f"as_list[index]==direct[{nm.replace(name, 'X')}]", lst[i], direct)
        same_leaf(ctx, f"read_candle==direct[{nm.replace(name, 'X')}]", ind.read_candle(cds[i], nm), direct)
        same_leaf(ctx, f"Hexital.reading(index)==direct[{nm.replace(name, 'X')}]", hx.reading(nm, index=i), direct)
        same_leaf(ctx, f"Hexital.reading_as_list==as_list[{nm.replace(name, 'X')}]", hx.reading_as_list(nm), lst)
        same_leaf(ctx, f"positive==negative-index[{nm.replace(name, 'X')}]", ind.reading(nm, index=pos), ind.reading(nm, index=pos - N))
        same_leaf(ctx, f"Hexital positive==negative-index[{nm.replace(name, 'X')}]", hx.reading(nm, index=pos), hx.reading(nm, index=pos - N))
        if N >= 2:
            same_leaf(ctx, f"prev_reading==as_list[-2][{nm.replace(name, 'X')}]", ind.prev_reading(nm), lst[-2])
            same_leaf(ctx, f"Hexital.prev_reading==as_list[-2][{nm.replace(name, 'X')}]", hx.prev_reading(nm), lst[-2])
        latest = lst[-1]
        ctx.require(f"Hexital.has_reading<=>latest-not-None[{nm.replace(name, 'X')}]", hx.has_reading(nm) == (latest is not None), f"latest={latest!r}")
        trailing = 0
        for v in reversed(lst):
            if v is None:
                break
            trailing += 1
        ctx.require(f"reading_count==trailing-run[{nm.replace(name, 'X')}]", ind.reading_count(nm) == trailing, f"{ind.reading_count(nm)} vs {trailing}")
    ctx.require("Indicator.has_reading<=>latest-not-None", ind.has_reading == (ind.as_list()[-1] is not None))
    ctx.require("out-of-range-index-is-None", hx.reading(name, index=N) is None and hx.reading(name, index=-N - 1) is None)


META = dict(
    bounds=dict(quick="10 indicator kinds (scalar, dict-valued with dotted fields, bool- and int-valued, ones that legitimately read 0/False) on the base timeframe (n=5) and on T2 inside a Hexital with a second indicator (n=8); every index in [-N, N-1]; plus live histories (one-by-one appends on T2, under a 2-minute lifespan, and with purge / calculate / recalculate / calculate_index in between) with the accessors compared after every step",
                thorough="n+1"),
    stubs=["exact real arithmetic, eps rounding (a reading can be exactly 0)", "uninterpreted products"],
    assumptions=[],
    explanation="every access path term-compared with direct inspection of the candle for all candle values and all indices",
)

# families added after the seeding rounds (kept next to the original bound so that MANIFEST / evidence stay current)
META["bounds"] = dict(META["bounds"], quick=META["bounds"]["quick"] + "; added after the seeding rounds: " + "co-tenant removed half way; every explicit index live; purge + calculate_index + calculate; partner explicitly on the Hexital's timeframe; members pre-attached to other candles; Hexital.candles(timeframe) taken before data arrives")
