"""C13 - indicators sharing candles do not interfere with one another.

Real code: Hexital registration order, Indicator naming / _set_reading / reading lookup (utils.candles), helper
naming of composites, Hexital.purge / recalculate / remove_indicator, CandleManager.purge.
The quantifier lives in the configurations: ordered pairs of catalogue indicators plus pairs built to have a name
relation (one name a prefix of the other; a top-level SMA_p / STDEV_p / TR next to a composite whose helper
series has that default name but a different input)."""
from harness.common import *  # noqa
from harness.common import _cp

PROPERTY = "C13"
CFG = dict(round="uf", nl_uf=True, div="assume", sqrt="assume")
HEAVY = {"aroon", "ADX", "RSI", "Supertrend", "OBV", "KC", "STOCH", "TSI", "MACD", "HMA", "Counter"}

NAME_RELATIONS = [
    # (A, B): A is operated on, B must not notice
    (("EMA", dict(period=2)), ("EMA", dict(period=2, name_suffix="b"))),
    (("EMA", dict(period=2, name_suffix="b")), ("EMA", dict(period=2))),
    (("SMA", dict(period=2)), ("SMA", dict(period=20))),
    (("SMA", dict(period=3)), ("BBANDS", dict(period=3, input_value="high"))),
    (("BBANDS", dict(period=3, input_value="high")), ("SMA", dict(period=3))),
    (("STDEV", dict(period=3)), ("BBANDS", dict(period=3, input_value="high"))),
    (("BBANDS", dict(period=3, input_value="high")), ("STDEV", dict(period=3))),
    (("BBANDS", dict(period=3)), ("BBANDS", dict(period=3, input_value="high", name_suffix="h"))),
    (("TR", dict()), ("ATR", dict(period=2))),
    (("ATR", dict(period=2)), ("TR", dict())),
    (("ATR", dict(period=2)), ("ATR", dict(period=3))),
    (("KC", dict(period=2)), ("TR", dict())),
    (("Supertrend", dict(period=2)), ("ATR", dict(period=2))),
    (("SMA", dict(period=2)), ("SMA", dict(period=2, input_value="high", name_suffix="h"))),
    (("STDEVTHRES", dict(period=2)), ("STDEV", dict(period=2))),
    (("STOCH", dict(period=2, slow_period=2, smoothing_k=2)), ("SMA", dict(period=2))),
    # one name a prefix of the other AND the longer-named one keeps running state in helper series
    (("RSI", dict(period=2)), ("RSI", dict(period=2, name_suffix="b"))),
    (("RSI", dict(period=2, name_suffix="b")), ("RSI", dict(period=2))),
    (("STDEV", dict(period=2)), ("STDEV", dict(period=2, name_suffix="b"))),
    (("VWAP", dict()), ("VWAP", dict(name_suffix="b"))),
    (("Supertrend", dict(period=2)), ("Supertrend", dict(period=2, multiplier=1.5, name_suffix="b"))),
    (("ATR", dict(period=2)), ("ATR", dict(period=2, name_suffix="b"))),
    (("MACD", dict(fast_period=2, slow_period=3, signal_period=2)), ("MACD", dict(fast_period=2, slow_period=3, signal_period=2, input_value="high", name_suffix="h"))),
    # a member whose NAME is that of a candle field (fullname_override="volume" / "high"): indicators that read the candle's own
    # fields (TR/ATR, OBV, VWAP, HLA - they have no input_value at all) must keep reading the candle, not that member
    (("SMA", dict(period=2, input_value="close", fullname_override="volume")), ("OBV", dict())),
    (("SMA", dict(period=2, input_value="close", fullname_override="high")), ("ATR", dict(period=2))),
    (("EMA", dict(period=2, input_value="open", fullname_override="low")), ("HLA", dict())),
    (("SMA", dict(period=2, input_value="open", fullname_override="close")), ("VWAP", dict())),
    # two instances of one helper-owning class that differ only in a parameter (a fast and a slow one side by side)
    (("STOCH", dict(period=2, slow_period=2, smoothing_k=2)), ("STOCH", dict(period=3, slow_period=2, smoothing_k=2))),
    (("STOCH", dict(period=3, slow_period=2, smoothing_k=2)), ("STOCH", dict(period=2, slow_period=2, smoothing_k=2))),
    (("RSI", dict(period=2)), ("RSI", dict(period=3))),
    (("RSI", dict(period=3)), ("RSI", dict(period=2))),
    (("STDEV", dict(period=2)), ("STDEV", dict(period=3))),
    (("BBANDS", dict(period=2)), ("BBANDS", dict(period=3))),
    (("KC", dict(period=2)), ("KC", dict(period=3))),
    (("TSI", dict(period=2, smooth_period=2)), ("TSI", dict(period=3, smooth_period=2))),
    (("HMA", dict(period=4)), ("HMA", dict(period=5))),
    (("Supertrend", dict(period=2)), ("Supertrend", dict(period=3))),
    (("MACD", dict(fast_period=2, slow_period=3, signal_period=2)), ("MACD", dict(fast_period=2, slow_period=4, signal_period=2))),
    (("STDEVTHRES", dict(period=2)), ("STDEVTHRES", dict(period=3))),
    (("VWMA", dict(period=2)), ("VWMA", dict(period=3))),
    (("aroon", dict(period=2)), ("aroon", dict(period=3))),
]


def obligations(tier):
    obs = []
    cat = catalog(tier)
    for ia, (a, akw, aw) in enumerate(cat):
        for ib, (b, bkw, bw) in enumerate(cat):
            if (a, akw) == (b, bkw):
                continue
            ha, hb = a in HEAVY, b in HEAVY
            if ha and hb and (tier == "quick" or "ADX" in (a, b) or "aroon" in (a, b)):
                continue
            if tier == "quick" and ("ADX" in (a, b) or "aroon" in (a, b)) and not ({a, b} & {"SMA", "TR", "ATR"}):
                continue
            if tier == "quick" and b == "ADX":
                continue   # B also processes the extra candle appended after A's removal: ADX as bystander is thorough-only
            if tier == "quick" and (ha or hb) and (ia + 2 * ib) % 5 != 0 and not ("ADX" in (a, b) or "aroon" in (a, b)):
                continue   # quick: every value-branching indicator meets a rotating fifth of the others, in both roles
            n = max(aw, bw) + (2 if (ha or hb) else 3)
            if "ADX" in (a, b):
                n = max(aw, bw) + 1
            obs.append(Ob(f"A={spec_name(('ind', a, akw))} B={spec_name(('ind', b, bkw))}/n={n}", dict(A=[a, akw], B=[b, bkw], n=n), CFG,
                          weight=n * (10 if (ha or hb) else 1), budget_s=600 if tier == "quick" else 3600, max_paths=50000, selfcheck=True))
    for (a, akw), (b, bkw) in NAME_RELATIONS:
        if tier == "quick" and (a, b) == ("aroon", "aroon"):
            continue      # two value-branching window scans side by side: thousands of paths, thorough tier only
        n = 6 if not ({a, b} & {"RSI", "Supertrend", "aroon"}) else (5 if "aroon" in (a, b) else 4)
        obs.append(Ob(f"names: A={spec_name(('ind', a, akw))} B={spec_name(('ind', b, bkw))}/n={n}", dict(A=[a, akw], B=[b, bkw], n=n), CFG, weight=50, budget_s=900))
    # both members on the same collapsing timeframe: they share one candle manager and one candle list
    shared = [(("SMA", dict(period=2)), ("EMA", dict(period=2))), (("EMA", dict(period=2)), ("SMA", dict(period=2))), (("ATR", dict(period=2)), ("BBANDS", dict(period=2))),
              (("MACD", dict(fast_period=2, slow_period=3, signal_period=2)), ("WMA", dict(period=2))), (("VWAP", dict()), ("TR", dict()))]
    for (a, akw), (b, bkw) in shared:
        # the same timeframe may be spelled in upper case, lower case or as a TimeFrame member
        spellings = (("T2", "T2"), ("T2", "T3"), (None, "T2"))
        if (a, b) in (("SMA", "EMA"), ("ATR", "BBANDS")):
            spellings += (("T2", "t2"), ("t2", "T2"), ("T1", "enum:MINUTE"), ("enum:MINUTE", "T1"), ("enum:MINUTE", "enum:MINUTE"))
        for tfa, tfb in spellings:
            n = 7
            obs.append(Ob(f"shared-timeframe {tfa}/{tfb}: A={spec_name(('ind', a, akw))} B={spec_name(('ind', b, bkw))}/n={n}",
                          dict(A=[a, dict(akw, **({"timeframe": tfa} if tfa else {}))], B=[b, dict(bkw, **({"timeframe": tfb} if tfb else {}))], n=n), CFG, weight=60, budget_s=900))
        # A brings settings of its own for the shared timeframe (gap filling, candlestick type) over a stream with a hole:
        # what B sees must not depend on A being there or on who was registered first
        for extra_a in (dict(timeframe_fill=True), dict(candlestick_type="HA")):
            if (a, b) not in (("SMA", "EMA"), ("ATR", "BBANDS")):
                continue
            n = 7
            obs.append(Ob(f"shared-timeframe T2/T2, A carries {extra_a}, gapped stream: A={spec_name(('ind', a, akw))} B={spec_name(('ind', b, bkw))}/n={n}",
                          dict(A=[a, dict(akw, timeframe="T2", **extra_a)], B=[b, dict(bkw, timeframe="T2")], n=n, gap=True), CFG, weight=60, budget_s=900))
    # the Hexital itself collapses to a timeframe (members without one of their own follow it): a member registered late,
    # purged, recalculated or removed next to another one
    for (a, akw), (b, bkw) in ((("SMA", dict(period=2)), ("EMA", dict(period=2))), (("EMA", dict(period=2)), ("SMA", dict(period=2))), (("ATR", dict(period=2)), ("BBANDS", dict(period=2))), (("MACD", dict(fast_period=2, slow_period=3, signal_period=2)), ("WMA", dict(period=2)))):
        obs.append(Ob(f"hexital-level timeframe T2: A={spec_name(('ind', a, akw))} B={spec_name(('ind', b, bkw))}/n=11", dict(A=[a, akw], B=[b, bkw], n=11, hextf="T2"), CFG, weight=60, budget_s=900))
    # members handed over as configuration dicts that SHARE a nested object (one 'args' dict reused for two analysis
    # members, each adding its own keyword): what one member is told must not leak into the other
    for (fa, ka), (fb, kb), common in ((("rising", dict(length=2)), ("falling", dict(length=3)), dict(indicator="close")), (("highest", dict(length=3)), ("lowest", dict(length=2)), dict(indicator="high")),
                                      (("mean_rising", dict(length=2)), ("rising", dict(length=3)), dict(indicator="low")), (("value_range", dict(length=3)), ("highest", dict(length=2)), dict(indicator="close"))):
        obs.append(Ob(f"shared-args-dict: A={fa}{ka} B={fb}{kb} args={common}/n=6", dict(A=[fa, ka], B=[fb, kb], common=common, n=6), CFG, fn="run_shared_config", weight=30, budget_s=600))
    return obs


def run_shared_config(ctx, P):
    _, _, Candle, _, Hexital = lib()
    (fa, ka), (fb, kb), n = P["A"], P["B"], P["n"]
    cs = mk_candles(ctx, n)
    refs = {}
    for f, k in ((fa, ka), (fb, kb)):
        alone = Hexital("alone", clone(cs), [dict(analysis=f, args=dict(P["common"]), **k)])
        alone.calculate()
        nm = list(alone.indicators)[0]
        refs[nm] = alone.indicator(nm).as_list()
    ctx.observe("alone", refs)
    if not ctx.require("distinct-names", len(refs) == 2, f"{list(refs)}"):
        return
    for order in ("A-first", "B-first"):
        common = dict(P["common"])
        A, B = dict(analysis=fa, args=common, **ka), dict(analysis=fb, args=common, **kb)
        hx = Hexital("hx", clone(cs)[: n - 1], [A, B] if order == "A-first" else [B, A])
        hx.calculate()
        hx.append(clone(cs)[n - 1])
        for nm, ref in refs.items():
            ctx.equal(f"{nm} next to a member configured with the same args dict ({order})", hx.reading_as_list(nm), ref)
        hx.recalculate()
        for nm, ref in refs.items():
            ctx.equal(f"{nm} after recalculate ({order})", hx.reading_as_list(nm), ref)


def own(ctx, ind, alone_snapshot):
    """B's own entries on its candles: top-level reading and every helper entry the stand-alone run writes"""
    out = []
    for c, t in zip(ind.candles, alone_snapshot):
        out.append(dict(ind={k: c.indicators.get(k, "<missing>") for k in t["ind"]}, sub={k: c.sub_indicators.get(k, "<missing>") for k in t["sub"]}))
    return out


def run(ctx, P):
    _, _, Candle, _, Hexital_ = lib()
    level = dict(timeframe=P["hextf"]) if P.get("hextf") else {}
    Hexital = lambda name, candles, members: Hexital_(name, candles, members, **level)      # (a Hexital-level timeframe for some pairs)
    (a, akw), (b, bkw), n = P["A"], P["B"], P["n"]
    cs_all = mk_candles(ctx, n + 1)
    if P.get("gap"):
        for i, c in enumerate(cs_all):
            if i >= 2:
                c.timestamp = ctx.const_time(GRID0 + 60 * (i + 1 + 4))      # a hole of two whole T2 buckets after the second candle
    cs, later = cs_all[:n], cs_all[n]          # `later`: one more candle appended after A has been removed
    mk = lambda name, kw: build(name, dict(kw))
    if mk(a, akw).name == mk(b, bkw).name:
        # the parameter that differs is not part of the generated name (ROC(period=2) / ROC(period=3) are both 'ROC'): the
        # property speaks of members with distinct names, which the user then provides with a suffix
        akw = dict(akw, name_suffix="a2")
    alone_later = Hexital("alone", clone(cs), [mk(b, bkw)])
    alone_later.calculate()
    alone_later.append(clone([later])[0])
    ref_later = alone_later.indicator(list(alone_later.indicators)[0]).as_list()
    alone = Hexital("alone", clone(cs), [mk(b, bkw)])
    alone.calculate()
    bname = list(alone.indicators)[0]
    ref_list = alone.indicator(bname).as_list()
    ref_snap = [dict(ind=_cp(c.indicators), sub=_cp(c.sub_indicators)) for c in alone.indicator(bname).candles]
    ctx.observe("B-alone", ref_list)
    a_alone = Hexital("a", clone(cs), [mk(a, akw)])
    a_alone.calculate()
    aname = list(a_alone.indicators)[0]
    a_ref = a_alone.indicator(aname).as_list()
    if not ctx.require("distinct-names", aname != bname):
        return

    def check(label, hx):
        ctx.equal(f"B.as_list {label}", hx.indicator(bname).as_list(), ref_list)
        ctx.equal(f"B-entries {label}", own(ctx, hx.indicator(bname), ref_snap), ref_snap)
        ctx.equal(f"Hexital.reading(B) {label}", hx.reading(bname), ref_list[-1])
        ctx.equal(f"Hexital.reading_as_list(B) {label}", hx.reading_as_list(bname), ref_list)

    for order in ("A-first", "B-first"):
        members = [mk(a, akw), mk(b, bkw)] if order == "A-first" else [mk(b, bkw), mk(a, akw)]
        hx = Hexital("hx", clone(cs)[: n - 1], members)
        hx.calculate()
        hx.append(clone(cs)[n - 1])
        check(f"with A ({order})", hx)
        ctx.equal(f"A.as_list with B ({order})", hx.indicator(aname).as_list(), a_ref)
        hx.purge(aname)
        check(f"after purge(A) ({order})", hx)
        hx.calculate()
        check(f"after purge(A)+calculate ({order})", hx)
        ctx.equal(f"A restored after purge+calculate ({order})", hx.indicator(aname).as_list(), a_ref)
        hx.recalculate(aname)
        check(f"after recalculate(A) ({order})", hx)
        # the roles swapped within the same history: maintenance aimed at B after maintenance aimed at A
        hx.purge(bname)
        ctx.equal(f"A.as_list after purge(B) that follows purge(A) ({order})", hx.indicator(aname).as_list(), a_ref)
        hx.calculate()
        check(f"after purge(B)+calculate ({order})", hx)
        hx.recalculate(bname)
        ctx.equal(f"A.as_list after recalculate(B) ({order})", hx.indicator(aname).as_list(), a_ref)
        check(f"after recalculate(B) ({order})", hx)
        hx.remove_indicator(aname)
        check(f"after remove_indicator(A) ({order})", hx)
        hx.calculate()
        check(f"after remove_indicator(A)+calculate ({order})", hx)
        hx.append(clone([later])[0])          # B must still be fed after A is gone
        ctx.equal(f"B keeps receiving candles after remove_indicator(A) ({order})", hx.indicator(bname).as_list(), ref_later)
        ctx.equal(f"Hexital.reading_as_list(B) after remove_indicator(A)+append ({order})", hx.reading_as_list(bname), ref_later)
        ctx.equal(f"Hexital.reading(B) after remove_indicator(A)+append ({order})", hx.reading(bname), ref_later[-1])
    # A added later to a running Hexital
    hx = Hexital("hx", clone(cs), [mk(b, bkw)])
    hx.calculate()
    hx.add_indicator(mk(a, akw))
    check("after add_indicator(A), before any calculate", hx)        # merely registering A changes nothing for B
    ctx.equal("B's readings on the candles the Hexital hands out, after add_indicator(A)", [c.indicators.get(bname) for c in hx.candles(hx.indicator(bname).timeframe)], ref_list)
    hx.calculate()
    check("after add_indicator(A)+calculate", hx)
    ctx.equal("A.as_list when added later", hx.indicator(aname).as_list(), a_ref)
    if a == "ADX":
        return          # (one more candle through ADX multiplies its value paths)
    hx.append(clone([later])[0])
    ctx.equal("B after add_indicator(A)+append", hx.indicator(bname).as_list(), ref_later)
    ctx.equal("B's readings on the candles the Hexital hands out, after add_indicator(A)+append", [c.indicators.get(bname) for c in hx.candles(hx.indicator(bname).timeframe)], ref_later)


META = dict(
    bounds=dict(quick="all ordered pairs of the non-branching catalogue indicators, each value-branching one (RSI, ADX, Aroon, ...) against a rotating fifth of the others in both roles (smallest periods), plus 23 pairs with a name relation (prefix names, helper default names, prefix names of helper-owning indicators) and 18 pairs sharing (or not) a collapsing timeframe T2/T3; n = warm-up+2..3 candles; both registration orders; purge / recalculate / remove_indicator / add_indicator aimed at A; two of the shared-timeframe pairs also with the timeframe spelled T2/t2, t2/T2, T1/TimeFrame.MINUTE in both orders",
                thorough="adds branching x branching pairs (except ADX/Aroon) and period-3 variants"),
    stubs=["exact real arithmetic, uninterpreted rounding and products"],
    assumptions=["pairs have distinct top-level names and neither takes the other as input"],
    explanation="B's readings and helper entries are term-compared with B alone after every step, for all candle values",
)

# families added after the seeding rounds (kept next to the original bound so that MANIFEST / evidence stay current)
META["bounds"] = dict(META["bounds"], quick=META["bounds"]["quick"] + "; added after the seeding rounds: " + 'period-only variants of 14 helper-owning classes; A carrying fill / HA settings over a gapped stream; maintenance aimed at B after A; shared args dict; Hexital-level T2 pairs compared right after add_indicator; members named like a candle field')
