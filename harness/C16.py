"""C16 - pattern and movement functions are causal and index-consistent.

Real code: every function in MOVEMENT_MAP and PATTERN_MAP (+ above/below), analysis.utils, utils.indexing,
utils.candles.reading_by_index/by_candle, and the Amorph wrapper. Symbolic: OHLC of every candle, the readings
'A' and 'B' stored on the candles with a symbolic per-candle missing flag, the index in [-N, N-1], and the
length/lookback argument (the engine forks over the bounded integers, the solver decides feasibility)."""
from harness.common import *  # noqa

PROPERTY = "C16"
CFG = dict(round="uf", nl_uf=True, div="assume", sqrt="assume", timeout_ms=3000)

MOVES = {
    "positive": {}, "negative": {},
    "above": dict(indicator="A", indicator_two="B"), "below": dict(indicator="A", indicator_two="B"),
    "value_range": dict(indicator="A"), "rising": dict(indicator="A"), "falling": dict(indicator="A"),
    "mean_rising": dict(indicator="A"), "mean_falling": dict(indicator="A"),
    "highest": dict(indicator="A"), "lowest": dict(indicator="A"), "highestbar": dict(indicator="A"), "lowestbar": dict(indicator="A"),
    "cross": dict(indicator_one="A", indicator_two="B"), "crossover": dict(indicator_one="A", indicator_two="B"), "crossunder": dict(indicator_one="A", indicator_two="B"),
}
HAS_LENGTH = {"value_range", "rising", "falling", "mean_rising", "mean_falling", "highest", "lowest", "highestbar", "lowestbar", "cross", "crossover", "crossunder"}
PATTERNS = ["doji", "dojistar", "hammer", "inverted_hammer"]


def get_fn(name):
    from hexital.analysis import movement, patterns
    return getattr(movement, name, None) or getattr(patterns, name)


def obligations(tier):
    obs = []
    N = 3 if tier == "quick" else 4
    for name in MOVES:
        obs.append(Ob(f"movement/{name}/N={N}", dict(fn=name, N=N), CFG, fn="run_movement", weight=10, budget_s=900, max_paths=200000))
    for name in PATTERNS:
        for lookback in (None, 1, 2):
            obs.append(Ob(f"pattern/{name}/lookback={lookback}", dict(fn=name, N=13, lookback=lookback), CFG, fn="run_pattern", weight=30, budget_s=900, max_paths=200000))
    for name in ("rising", "highestbar", "crossover", "cross", "value_range", "mean_rising", "lowest"):
        obs.append(Ob(f"amorph-live-vs-batch/{name}", dict(fn=name, N=4), CFG, fn="run_amorph", weight=10, budget_s=900))
    # patterns wrapped as indicators on a collapsing timeframe, fed minute by minute: the open bucket is evaluated,
    # then grows by merges and is evaluated again - the column must equal the batch column
    for name in (("doji",) if tier == "quick" else PATTERNS):
        obs.append(Ob(f"amorph-pattern-live-vs-batch/{name}/T2", dict(fn=name, N=23), CFG, fn="run_amorph_pattern_tf", weight=40, budget_s=900, max_paths=20000))
    return obs


def run_amorph_pattern_tf(ctx, P):
    name, N = P["fn"], P["N"]
    key = {"inverted_hammer": "inv_hammer"}.get(name, name)
    cs = mk_candles(ctx, N)
    live = build_amorph(key, {}, candles=[], timeframe="T2")
    for c in clone(cs):
        live.append(c)
    batch = build_amorph(key, {}, candles=clone(cs), timeframe="T2")
    batch.calculate()
    ctx.observe("column", batch.as_list())
    ctx.equal("pattern column on a timeframe: live==batch", snap(live.candles), snap(batch.candles))
    chunked = build_amorph(key, {}, candles=clone(cs)[:20], timeframe="T2")
    chunked.calculate()
    for c in clone(cs)[20:]:
        chunked.append(c)
    ctx.equal("pattern column on a timeframe: preloaded+appended==batch", snap(chunked.candles), snap(batch.candles))


def mk_marked(ctx, n, use_b):
    cs = mk_candles(ctx, n)
    for i, c in enumerate(cs):
        if not ctx.boolean(f"missA{i}"):
            c.indicators["A"] = ctx.real(f"A{i}", -1000, 1000)
        if use_b and not ctx.boolean(f"missB{i}"):
            c.indicators["B"] = ctx.real(f"B{i}", -1000, 1000)
    return cs


def run_movement(ctx, P):
    name, N = P["fn"], P["N"]
    f = get_fn(name)
    kw = dict(MOVES[name])
    use_b = "B" in kw.values()
    cs = mk_marked(ctx, N, use_b) if kw else mk_candles(ctx, N)
    if name in HAS_LENGTH:
        kw["length"] = ctx.integer("length", 0, N + 1)
    i = ctx.integer("index", -N, N - 1)
    pos = i if i >= 0 else N + i
    at_i = f(cs, index=i, **kw)
    ctx.observe("result", at_i)
    trunc = f(cs[: pos + 1], **kw)                       # default (latest) position of the truncated list
    ctx.equal("f(c,i)==f(c[:i+1])", at_i, trunc)
    ctx.equal("f(c,i)==f(c,i-N)", f(cs, index=pos, **kw), f(cs, index=pos - N, **kw))
    ctx.equal("f(c,i)==f(c[:i+1],i)", at_i, f(cs[: pos + 1], index=pos, **kw))


def run_pattern(ctx, P):
    name, N, lookback = P["fn"], P["N"], P["lookback"]
    f = get_fn(name)
    cs = mk_candles(ctx, N)
    kw = {} if lookback is None else dict(lookback=lookback)
    i = ctx.integer("index", 9, N - 1)        # patterns need 10 candles of history; earlier indices are all-False
    a = f(cs, index=i, **kw)
    ctx.observe("result", a)
    ctx.equal("f(c,i)==f(c[:i+1])", a, f(cs[: i + 1], **kw))
    ctx.equal("f(c,i)==f(c,i-N)", a, f(cs, index=i - N, **kw))
    ctx.equal("f(c,i)==f(c[:i+1],i)", a, f(cs[: i + 1], index=i, **kw))


def run_amorph(ctx, P):
    name, N = P["fn"], P["N"]
    kw = dict(MOVES[name])
    kw = {k: ("close" if v == "A" else "open") for k, v in kw.items()}
    if name in HAS_LENGTH:
        kw["length"] = 2
    cs = mk_candles(ctx, N)
    f = get_fn(name)
    live = build_amorph(name, kw, candles=[])
    col = []
    for c in clone(cs):
        live.append(c)
        col.append(live.reading())
    batch = build_amorph(name, kw, candles=clone(cs))
    batch.calculate()
    ctx.observe("column", batch.as_list())
    ctx.equal("column live==batch", col, batch.as_list())
    from hexital.utils.indexing import round_values   # the wrapper stores round_values(result)
    ctx.equal("column==function at each index", batch.as_list(), [round_values(f(cs, index=i, **kw)) for i in range(N)])
    # the wrapper evaluated at ONE index, given as i and as the equivalent negative index i-N (the functions are stateless,
    # so each single evaluation must write what the function returns there)
    for i in range(N):
        for idx in (i, i - N):
            one = build_amorph(name, kw, candles=clone(cs))
            one.calculate_index(idx)
            ctx.equal(f"wrapper.calculate_index({'i' if idx >= 0 else 'i-N'}) writes f(c,i)", one.candles[i].indicators.get(one.name, "<nothing written>"), round_values(f(cs, index=i, **kw)))


META = dict(
    bounds=dict(quick="movement functions: N=3 candles, readings A/B each symbolic-or-missing per candle, index in [-3,2], length in [0,4]; patterns: N=13 candles, index in [9,12], lookback in {None,1,2}; Amorph column live vs batch for 7 functions over 4 candles; pattern wrappers (doji; thorough: all four) on T2 over 23 one-minute candles, live vs batch",
                thorough="movement N=4, length in [0,5]"),
    stubs=["exact real arithmetic; products/quotients uninterpreted with exact re-check on mismatch"],
    assumptions=["pattern indices below 10 return False by construction and are not enumerated"],
    explanation="f(c,i) == f(c[:i+1]) == f(c,i-N) decided for all candle values, all missing-reading patterns, all indices and lengths",
)

# families added after the seeding rounds (kept next to the original bound so that MANIFEST / evidence stay current)
META["bounds"] = dict(META["bounds"], quick=META["bounds"]["quick"] + "; added after the seeding rounds: " + 'wrapper.calculate_index(i) and (i-N) for 7 functions')
