"""C02 - readings of closed candles are final: no look-ahead, no repainting.

Same real code as C01, observed at every point of an append history: after each append the snapshot
(timestamps, OHLCV, every stored reading) minus the still-forming last bucket of a collapsing
timeframe must be a prefix of every later snapshot; and a batch over candles[:k] must give the first
k candles the readings a batch over the full list gives them (no dependence on later candles)."""
from harness.common import *  # noqa
from harness import C01

PROPERTY = "C02"
EQ = C01.EQ


def obligations(tier):
    obs = []
    for o in C01.obligations(tier):
        if o.fn != "run":
            continue
        P = dict(o.params)
        P.pop("sched", None)
        obs.append(Ob(o.name, P, EQ, weight=o.weight, budget_s=o.budget_s, max_paths=o.max_paths))
    # chained members inside a Hexital, also with the consumer registered BEFORE its source (its newest reading is then
    # None when first shown - and must stay what it was shown as)
    for order in ("source-first", "consumer-first"):
        obs.append(Ob(f"hexital-chain/{order}/n=5", dict(n=5, order=order), EQ, fn="run_chain", weight=20, budget_s=600))
    return obs


def chain_members(order):
    src = [build("EMA", dict(period=2)), build("RSI", dict(period=2))]
    consumers = [build("SMA", dict(period=2, input_value="EMA_2")), build("STDEV", dict(period=2, input_value="EMA_2", name_suffix="e")),
                 build("TSI", dict(period=2, smooth_period=2, input_value="RSI_2"))]
    return consumers + src if order == "consumer-first" else src + consumers


def run_chain(ctx, P):
    _, _, Candle, _, Hexital = lib()
    n = P["n"]
    cs = mk_candles(ctx, n)
    for step in (1, 2):
        src = clone(cs)
        hx = Hexital("hx", [], chain_members(P["order"]))
        shots = []
        for pos in range(0, n, step):
            part = src[pos:pos + step]
            hx.append(part if len(part) > 1 else part[0])
            shots.append(snap(hx.candles()))
        final = shots[-1]
        if step == 1:
            ctx.observe("final", final)
        for t, s in enumerate(shots[:-1]):
            ctx.equal(f"chain closed-candles-final[step={step}]", s, final[:len(s)])


def run(ctx, P):
    spec = tuple(P["spec"][:3])
    n = P["n"]
    tf = P.get("tf")
    cs = C01.make_stream(ctx, P)         # the same streams as C01: grid step, and a two-bucket hole when gap filling is on
    kw = C01.common_kw(P)
    full = build_any(spec, candles=clone(cs), **kw)
    full.calculate()
    fs = snap(full.candles)
    # (a) live history: one by one, and in chunks of two; snapshot after every append
    for step in (1, 2):
        src = clone(cs)
        live = build_any(spec, candles=[], **kw)
        shots = []
        for pos in range(0, n, step):
            part = src[pos:pos + step]
            live.append(part if len(part) > 1 else part[0])
            shots.append(snap(live.candles))
        final = shots[-1]
        if step == 1:
            ctx.observe("final", final)
        for t, s in enumerate(shots[:-1]):
            closed = s[:-1] if tf else s
            ctx.require(f"no-candle-lost[step={step}]", len(closed) <= len(final), f"snapshot {t} has {len(closed)} closed candles, final has {len(final)}")
            ctx.equal(f"closed-candles-final[step={step}]", closed, final[:len(closed)])
            # "... whether it was computed live or in a batch over a longer list"
            ctx.equal(f"closed-candles-shown-live==batch-over-the-full-list[step={step}]", closed, fs[:len(closed)])
    # (b) batch over a prefix vs batch over everything
    for k in range(1, n):
        pre = build_any(spec, candles=clone(cs)[:k], **kw)
        pre.calculate()
        ps = snap(pre.candles)
        closed = ps[:-1] if tf else ps
        ctx.equal("batch-prefix==batch-full", closed, fs[:len(closed)])


META = dict(
    bounds=C01.META["bounds"],
    stubs=C01.META["stubs"],
    assumptions=C01.META["assumptions"] + ["histories: one candle per append and two candles per append; prefixes: every k"],
    explanation="every snapshot of a live history and every batch over a prefix compared leaf-by-leaf (terms) with the final state, for all candle values of each feasible path",
)

# families added after the seeding rounds (kept next to the original bound so that MANIFEST / evidence stay current)
META["bounds"] = dict(META["bounds"], quick=META["bounds"]["quick"] + "; added after the seeding rounds: " + 'the streams of C01 (40-second grid, two-bucket hole when gap filling is on, live-long feeds, long windows, doji wrapper)')
