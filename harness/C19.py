"""C19 - reading state and converting input have no hidden side effects.

Real code: Indicator.__str__/name/settings/has_reading/reading/prev_reading/as_list/reading_count/reading_period/
candles_sum/read_candle, Hexital.reading/prev_reading/has_reading/reading_as_list/candles/get_candles/timeframes/
indicators/indicator_settings, Candle.__repr__/from_dict/from_list(s), CandleManager.append dispatch, Hexital.append.
(a) every read-only call is bracketed by deep term-level snapshots and the object must keep working and end equal
to a twin that never made the calls; (b) the same symbolic candle given as Candle / dict / list (timestamp first,
last, absent) / lists of those must give identical results, leave the caller's containers untouched and reach
every timeframe of a Hexital with its timestamp."""
import copy

from harness.common import *  # noqa
from harness.common import _cp

PROPERTY = "C19"
CFG = dict(round="uf", nl_uf=True, div="assume", sqrt="assume")
SPECS = [("ind", "EMA", dict(period=2)), ("ind", "MACD", dict(fast_period=2, slow_period=3, signal_period=2)), ("ind", "BBANDS", dict(period=2)),
         ("ind", "STOCH", dict(period=2, slow_period=2, smoothing_k=2)), ("ind", "OBV", {}), ("amorph", "rising", dict(indicator="close", length=2)), ("ind", "Supertrend", dict(period=2))]

IND_ACCESSORS = {
    "str": lambda i: str(i), "repr": lambda i: repr(i), "name": lambda i: i.name, "settings": lambda i: i.settings,
    "has_reading": lambda i: i.has_reading, "reading": lambda i: i.reading(), "reading(idx)": lambda i: i.reading(index=0),
    "prev_reading": lambda i: i.prev_reading(), "as_list": lambda i: i.as_list(), "reading_count": lambda i: i.reading_count(),
    "reading_period": lambda i: i.reading_period(2), "candles_sum": lambda i: i.candles_sum(2, "close"), "read_candle": lambda i: i.read_candle(i.candles[-1]),
    "prev_exists": lambda i: i.prev_exists(), "candle_manager": lambda i: i.candle_manager, "str(candle)": lambda i: str(i.candles[-1]),
    "candle-geometry": lambda i: (i.candles[-1].realbody, i.candles[-1].shadow_upper, i.candles[-1].shadow_lower, i.candles[-1].high_low),
}
HEX_ACCESSORS = {
    "reading": lambda h, n: h.reading(n), "prev_reading": lambda h, n: h.prev_reading(n), "has_reading": lambda h, n: h.has_reading(n),
    "reading_as_list": lambda h, n: h.reading_as_list(n), "candles": lambda h, n: h.candles(), "candles(tf)": lambda h, n: h.candles("T2"),
    "get_candles": lambda h, n: h.get_candles(), "timeframes": lambda h, n: h.timeframes, "indicators": lambda h, n: h.indicators,
    "indicator_settings": lambda h, n: h.indicator_settings, "indicator": lambda h, n: h.indicator(n), "str": lambda h, n: str(h), "repr": lambda h, n: repr(h),
}


def obligations(tier):
    obs = []
    for spec in SPECS:
        n = 5 if tier == "quick" else 6
        for part in (0, 1, 2):     # the accessor list is split in three to spread the work over the cores
            obs.append(Ob(f"accessors/indicator/{spec_name(spec)}/n={n}/part{part}", dict(spec=list(spec), n=n, part=part), CFG, fn="run_ind_accessors", weight=n * 5, budget_s=900))
            obs.append(Ob(f"accessors/hexital/{spec_name(spec)}/n={n}/part{part}", dict(spec=list(spec), n=n, part=part), CFG, fn="run_hex_accessors", weight=n * 5, budget_s=900))
    obs.append(Ob("candles that already carry a reading", dict(n=5), CFG, fn="run_carried", weight=10, budget_s=300))
    for host in ("manager", "indicator", "hexital", "hexital-tf"):
        obs.append(Ob(f"encodings/{host}", dict(host=host, n=4), CFG, fn="run_encodings", weight=20, budget_s=900))
        if host != "hexital-tf":
            obs.append(Ob(f"encodings-aware-timestamps/{host}", dict(host=host, n=4), CFG, fn="run_encodings_aware", weight=20, budget_s=900))
    return obs


def simple(v):
    return isinstance(v, (str, int, float, bool, type(None))) and not hasattr(v, "t")


def ind_state(ind):
    d = vars(ind)
    return dict(keys=sorted(d), simple={k: v for k, v in d.items() if simple(v)}, has_candles="candles" in d, candles=snap(ind.candles) if "candles" in d else None,
                subs=sorted(getattr(ind, "sub_indicators", {})), managed=sorted(getattr(ind, "managed_indicators", {})), same_list=ind.candles is ind.candle_manager.candles if "candles" in d else None)


def run_ind_accessors(ctx, P):
    spec = tuple(P["spec"])
    n = P["n"]
    cs = mk_candles(ctx, n)
    twin = build_any(spec, candles=clone(cs)[:2])
    twin.calculate()
    for c in clone(cs)[2:]:
        twin.append(c)
    final = ind_state(twin)
    ctx.observe("final", twin.as_list())
    for k, (aname, acc) in enumerate(IND_ACCESSORS.items()):
        if k % 3 != P.get("part", k % 3):
            continue
        ind = build_any(spec, candles=clone(cs)[:2])
        ind.calculate()
        src = clone(cs)
        for k in range(2, n):
            before = ind_state(ind)
            acc(ind)
            ctx.equal(f"accessor-leaves-state-unchanged[{aname}]", ind_state(ind), before)
            ind.append(src[k])          # the object must still be usable
        acc(ind)
        ctx.equal(f"usable-and-same-final-state[{aname}]", ind_state(ind), final)


def hex_state(hx):
    return dict(keys=sorted(vars(hx)), names=list(hx.indicators), managers=list(hx.get_candles()), candles={k: snap(v) for k, v in hx.get_candles().items()},
                inds={k: ind_state(v) for k, v in hx.indicators.items()})


def run_hex_accessors(ctx, P):
    _, _, Candle, _, Hexital = lib()
    spec = tuple(P["spec"])
    n = P["n"]
    cs = mk_candles(ctx, n)
    mk = lambda: Hexital("hx", clone(cs)[:2], [build_any(spec), build("EMA", dict(period=2), timeframe="T2", name_suffix="p")])
    twin = mk()
    twin.calculate()
    for c in clone(cs)[2:]:
        twin.append(c)
    final = hex_state(twin)
    name = list(twin.indicators)[0]
    ctx.observe("final", twin.reading_as_list(name))
    for k, (aname, acc) in enumerate(HEX_ACCESSORS.items()):
        if k % 3 != P.get("part", k % 3):
            continue
        hx = mk()
        hx.calculate()
        src = clone(cs)
        for k in range(2, n):
            before = hex_state(hx)
            acc(hx, name)
            ctx.equal(f"hexital-accessor-leaves-state-unchanged[{aname}]", hex_state(hx), before)
            hx.append(src[k])
        acc(hx, name)
        ctx.equal(f"hexital-usable-and-same-final-state[{aname}]", hex_state(hx), final)


def encodings(c):
    """the same candle in every accepted input form -> (label, factory of a fresh input object)"""
    vals = [c.open, c.high, c.low, c.close, c.volume]
    ts = c.timestamp
    d = dict(open=c.open, high=c.high, low=c.low, close=c.close, volume=c.volume, timestamp=ts)
    D = dict(Open=c.open, High=c.high, Low=c.low, Close=c.close, Volume=c.volume, Timestamp=ts)
    return [
        ("Candle", lambda: clone([c])[0]), ("dict", lambda: dict(d)), ("Dict-capitalised", lambda: dict(D)),
        # a dict that carries more than the documented keys (e.g. saved with vars(candle) in an earlier run): the extras
        # are not part of the candle, and nested objects of the caller are neither adopted nor written to
        ("dict+extra-keys", lambda: dict(d, indicators={"FOREIGN": 1.5}, sub_indicators={"FOREIGN_sub": {"x": 2.5}}, clean_values={"open": 1.0}, note="saved")),
        ("list-ts-last", lambda: vals + [ts]), ("list-ts-first", lambda: [ts] + vals),
        ("[Candle]", lambda: clone([c])), ("[dict]", lambda: [dict(d)]), ("[list-ts-last]", lambda: [vals + [ts]]), ("[list-ts-first]", lambda: [[ts] + vals]),
    ]


def run_encodings(ctx, P):
    _, _, Candle, CandleManager, Hexital = lib()
    n = P["n"]
    cs = mk_candles(ctx, n, zero_ok=True)     # an open of exactly 0 must not turn a list-form candle into 'no input'
    host = P["host"]

    def make():
        if host == "manager":
            return CandleManager([], timeframe="T2")
        if host == "indicator":
            return build("EMA", dict(period=2), candles=[], timeframe="T2")
        if host == "hexital-tf":
            # the Hexital itself collapses to T2; one member on a nested timeframe of its own
            return Hexital("hx", [], [build("EMA", dict(period=2)), build("OBV", dict()), build("SMA", dict(period=2), timeframe="T4")], timeframe="T2")
        # the same timeframe spelled three ways (upper / lower case, TimeFrame member) by different members
        return Hexital("hx", [], [build("EMA", dict(period=2)), build("EMA", dict(period=2), timeframe="T2"), build("SMA", dict(period=2), timeframe="T3"),
                                  build("WMA", dict(period=2), timeframe="t2"), build("RMA", dict(period=2), timeframe="enum:MINUTE"), build("HLA", dict(), timeframe="T1"),
                                  build("TR", dict(), timeframe="enum:MINUTE")])

    def view(h):
        if host == "manager":
            return snap(h.candles)
        if host == "indicator":
            return snap(h.candles)
        return {k: snap(v) for k, v in h.get_candles().items()}

    ref = make()
    for c in clone(cs):
        ref.append(c)
    exp = view(ref)
    ctx.observe("reference", exp)
    if host in ("hexital", "hexital-tf"):
        # "delivers the same candle to every timeframe": every member's candle list is what a stand-alone manager of
        # that member's timeframe builds from the same stream
        ohlcv = lambda lst: [dict(ts=ctx.sec_of(c.timestamp), open=c.open, high=c.high, low=c.low, close=c.close, volume=c.volume) for c in lst]
        for name, ind in ref.indicators.items():
            alone = CandleManager([], timeframe=ind.timeframe)
            for c in clone(cs):
                alone.append(c)
            ctx.equal(f"member {name}: its timeframe received every candle", ohlcv(ind.candles), ohlcv(alone.candles))
        # ... also when the set of members changes half way: one of two members sharing a timeframe is removed, the only
        # member of another timeframe is removed, a new member joins a timeframe already in use
        if host == "hexital":
            h2 = make()
            src = clone(cs)
            for c in src[: n // 2]:
                h2.append(c)
            names = list(h2.indicators)
            h2.remove_indicator(names[3])      # WMA on 't2' (EMA stays on 'T2')
            h2.remove_indicator(names[2])      # SMA, alone on T3
            h2.remove_indicator(names[6])      # TR on TimeFrame.MINUTE (RMA and HLA stay on that timeframe)
            h2.add_indicator(build("SMA", dict(period=2), timeframe="T2", name_suffix="late"))
            for c in src[n // 2:]:
                h2.append(c)
            for name, ind in h2.indicators.items():
                alone = CandleManager([], timeframe=ind.timeframe)
                for c in clone(cs):
                    alone.append(c)
                ctx.equal(f"member {name}: its timeframe received every candle although other members came and went", ohlcv(ind.candles), ohlcv(alone.candles))
                ctx.require(f"member {name}: Hexital.candles(its timeframe) is its candle list", h2.candles(ind.timeframe) is ind.candles or ohlcv(h2.candles(ind.timeframe)) == ohlcv(ind.candles)) if ind.timeframe else None
    labels = [l for l, _ in encodings(cs[0])]
    for li, label in enumerate(labels):
        h = make()
        for c in cs:
            obj = encodings(c)[li][1]()
            keep = _keep(obj)
            h.append(obj)
            if isinstance(obj, (dict, list)):
                same = (obj == keep) if not isinstance(obj, list) else (len(obj) == len(keep) and all(_same(a, b) for a, b in zip(obj, keep)))
                ctx.require(f"caller-container-unchanged[{label}]", same, f"{label}: input mutated by append")
        ctx.equal(f"same-result-as-Candle-input[{label}]", view(h), exp)
        if host == "hexital":
            for tf, lst in h.get_candles().items():
                ctx.require(f"every-timeframe-got-the-timestamp[{label}]", all(c.timestamp is not None for c in lst), f"timeframe {tf} has candles without timestamp")


def run_encodings_aware(ctx, P):
    """timezone-aware timestamps: a Candle carrying an aware datetime, a list carrying it, and dicts carrying the same instant
    as ISO-8601 text with '+00:00' and with the 'Z' suffix - identical results, timestamps stay aware"""
    from datetime import timezone
    _, _, Candle, CandleManager, Hexital = lib()
    n, host = P["n"], P["host"]
    cs = mk_candles(ctx, n, zero_ok=True)
    stamps = [c.timestamp.replace(tzinfo=timezone.utc) for c in cs]

    def forms(c, t):
        iso = t.replace(tzinfo=None).isoformat()
        base = dict(open=c.open, high=c.high, low=c.low, close=c.close, volume=c.volume)
        return [("Candle(aware datetime)", lambda: Candle(c.open, c.high, c.low, c.close, c.volume, timestamp=t)),
                ("dict, ISO text +00:00", lambda: dict(base, timestamp=iso + "+00:00")), ("dict, ISO text Z", lambda: dict(base, timestamp=iso + "Z")),
                ("Candle(ISO text Z)", lambda: Candle(c.open, c.high, c.low, c.close, c.volume, timestamp=iso + "Z")),
                ("list, aware datetime last", lambda: [c.open, c.high, c.low, c.close, c.volume, t])]

    def make():
        if host == "manager":
            return CandleManager([], timeframe="T2")
        if host == "indicator":
            return build("EMA", dict(period=2), candles=[], timeframe="T2")
        return Hexital("hx", [], [build("EMA", dict(period=2)), build("SMA", dict(period=2), timeframe="T2")])

    def snap_aw(lst):
        out = snap(lst)
        for d, c in zip(out, lst):
            t = c.timestamp
            d["ts"] = None if t is None else t.replace(tzinfo=None).isoformat()
            d["zone"] = None if t is None else str(t.tzinfo)
        return out
    view = (lambda h: {k: snap_aw(v) for k, v in h.get_candles().items()}) if host == "hexital" else (lambda h: snap_aw(h.candles))
    labels = [l for l, _ in forms(cs[0], stamps[0])]
    exp = None
    for li, label in enumerate(labels):
        h = make()
        for c, t in zip(cs, stamps):
            h.append(forms(c, t)[li][1]())
        got = view(h)
        if exp is None:
            exp = got
            ctx.observe("reference", exp)
            lists = h.get_candles().values() if host == "hexital" else [h.candles]
            ctx.require("timestamps stay aware", all(c.timestamp.tzinfo is not None for lst in lists for c in lst))
        else:
            ctx.equal(f"same-result-as-aware-Candle-input[{label}]", got, exp)


def run_carried(ctx, P):
    """Candle objects that already carry a reading (enriched by an external feed): append delivers the same candle - that
    reading included - to every timeframe, so members on the base timeframe and on T1 (same 1-minute grid) read the same"""
    _, _, Candle, _, Hexital = lib()
    n = P["n"]
    cs = mk_candles(ctx, n, zero_ok=True)
    ext = [ctx.real(f"ext{i}", -PRICE_HI, PRICE_HI) for i in range(n)]
    hx = Hexital("hx", [], [build("SMA", dict(period=2, input_value="ext")), build("SMA", dict(period=2, input_value="ext"), timeframe="T1"), build("EMA", dict(period=2))])
    src = clone(cs)
    for c, x in zip(src, ext):
        c.indicators["ext"] = x
    hx.append(src[0])
    hx.append(src[1:3])
    for c in src[3:]:
        hx.append(c)
    base = [c.indicators.get("ext") for c in hx.candles()]
    t1 = [c.indicators.get("ext") for c in hx.candles("T1")]
    ctx.observe("carried", base)
    ctx.equal("the carried reading reached the base timeframe", base, ext)
    ctx.equal("the carried reading reached the T1 timeframe", t1, ext)
    ctx.equal("members reading it agree on both timeframes", hx.reading_as_list("SMA_2_T1"), hx.reading_as_list("SMA_2"))


def _keep(obj):
    """a copy of the caller's container deep enough to notice writes into nested dicts / lists (leaves are shared)"""
    if isinstance(obj, dict):
        return {k: _keep(v) for k, v in obj.items()}
    if isinstance(obj, list):
        return [_keep(v) for v in obj]
    return obj


def _same(a, b):
    if isinstance(a, (list, dict)):
        return type(a) is type(b) and len(a) == len(b) and (all(x is y or x == y for x, y in zip(a, b)) if isinstance(a, list) else all(k in b and (a[k] is b[k] or a[k] == b[k]) for k in a))
    return a is b or a == b


SELFCHECK = {"quick": 4, "thorough": 10}
META = dict(
    bounds=dict(quick="accessors: 17 read-only calls on an indicator and 13 on a Hexital (7 indicator kinds incl. dict-valued, helper-owning and analysis wrappers), each issued before every one of 3 appends and once at the end; encodings: 9 input forms x {CandleManager, Indicator, Hexital with three timeframes}, 4 candles; the Hexital host has seven members on base/T1/T2/T3 with the timeframe spelled in upper case, lower case and as TimeFrame member, each member compared with a stand-alone manager of its timeframe",
                thorough="n+1"),
    stubs=["exact real arithmetic, uninterpreted rounding and products", "concrete 1-minute timestamps"],
    assumptions=["'unchanged' = instance dict keys, simple attribute values, helper registries and the deep candle snapshot (OHLCV, timestamps, every stored reading as a term)"],
    explanation="programs interleaving read-only calls with appends over symbolic candles; state snapshots term-compared; the solver decides every non-identical leaf",
)

# families added after the seeding rounds (kept next to the original bound so that MANIFEST / evidence stay current)
META["bounds"] = dict(META["bounds"], quick=META["bounds"]["quick"] + "; added after the seeding rounds: " + "membership changes half way; dicts with extra keys; aware-datetime / ISO '+00:00' / ISO 'Z' encodings; a Hexital-level-timeframe host; candles that already carry a reading")
