"""Reference model of timeframe collapsing (written from the property statement, not from the code):
right-closed, right-labelled buckets (k*tf, (k+1)*tf] of the wall-clock axis."""
from harness.common import *  # noqa

TF_SECONDS = {"S": 1, "T": 60, "H": 3600, "D": 86400}


def tf_secs(tf):
    return TF_SECONDS[tf[0].upper()] * int(tf[1:])


def ref_resample(ctx, cs, ts, tfs):
    """cs: input candles (values), ts: their second-resolution timestamps (numbers / terms).
    Returns list of dict(k=bucket index, ts=label seconds, open, high, low, close, volume, members)"""
    out = []
    kprev = None
    for c, t in zip(cs, ts):
        k = ctx.ceildiv(t, tfs)
        same = False
        if kprev is not None:
            same = bool(k == kprev)   # forks when symbolic
        if same:
            b = out[-1]
            b["high"] = ctx.max(b["high"], c.high)
            b["low"] = ctx.min(b["low"], c.low)
            b["close"] = c.close
            b["volume"] = b["volume"] + c.volume
            b["members"] += 1
        else:
            out.append(dict(k=k, ts=k * tfs, open=c.open, high=c.high, low=c.low, close=c.close, volume=c.volume, members=1))
        kprev = k
    return out


def ref_fill(ctx, buckets, tfs, max_gap):
    """insert flat zero-volume buckets so that consecutive labels are exactly tfs apart"""
    out = []
    for b in buckets:
        if out:
            gap = ctx.concretize(b["k"] - out[-1]["k"], 1, max_gap)
            for j in range(1, gap):
                pc = out[-1]["close"]
                out.append(dict(k=out[-1]["k"] + 1, ts=out[-1]["ts"] + tfs, open=pc, high=pc, low=pc, close=pc, volume=0, members=0))
        out.append(b)
    return out


def lib_view(ctx, candles):
    return [dict(ts=ctx.sec_of(c.timestamp), open=c.open, high=c.high, low=c.low, close=c.close, volume=c.volume) for c in candles]


def ref_view(buckets):
    return [dict(ts=b["ts"], open=b["open"], high=b["high"], low=b["low"], close=b["close"], volume=b["volume"]) for b in buckets]


def two_chunk_schedules(n):
    out = [[1] * n]
    for k in range(1, n):
        out.append([k, n - k])
    return out


def drive_manager(cs, tf, fill, preload, chunks, extra_collapse=0):
    _, _, Candle, CandleManager, _ = lib()
    src = clone(cs)
    m = CandleManager(src[:preload], timeframe=tf, timeframe_fill=fill)
    pos = preload
    for c in chunks:
        part = src[pos:pos + c]
        m.append(part if c > 1 else part[0])
        pos += c
    for _ in range(extra_collapse):
        m.collapse_candles()
    return m
