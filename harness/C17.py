"""C17 - movement, candle-shape and pattern predicates mean what they document.

Real code: hexital.analysis.movement.* (above/below/rising/falling/mean_*/highest/lowest/highestbar/lowestbar/
value_range/crossover/crossunder), Candle.realbody/shadow_upper/shadow_lower/high_low/positive/negative,
hexital.analysis.patterns.* and analysis.utils.*. Oracles: refs/predicates.py (from the docstrings / the property
statement); pattern clauses written below from the TA-Lib candle settings the module cites.
Patterns: symbolic history + candidate constrained to meet every clause with a 2x margin (must be reported) or to
break exactly one clause by 2x while meeting the others (must not be); each threshold is taken both with and
without the candidate in the averaging window, so the margin covers either reading of 'previous candles'."""
from harness.common import *  # noqa
from harness.C16 import MOVES, HAS_LENGTH, get_fn, mk_marked
from refs import predicates as R

PROPERTY = "C17"
LIN = dict(round="ideal", nl_uf=False, div="assume", timeout_ms=3000, fresh_timeout_ms=30000)
# the pattern predicates are stated on exact prices: any rounding applied on the way (none on the pinned tree) is modelled
# as an arbitrary perturbation of up to half a unit of its last digit, so it cannot hide behind the ideal-rounding stub
PAT = dict(LIN, round="eps")
PATTERNS = ["doji", "dojistar", "hammer", "inverted_hammer"]
CLAUSES = {"doji": 1, "dojistar": 3, "hammer": 4, "inverted_hammer": 4}


def obligations(tier):
    obs = []
    N = 3 if tier == "quick" else 4
    for name in ("above", "below", "rising", "falling", "mean_rising", "mean_falling", "highest", "lowest", "highestbar", "lowestbar", "value_range", "crossover", "crossunder"):
        obs.append(Ob(f"movement/{name}/N={N}", dict(fn=name, N=N), LIN, fn="run_movement", weight=10, budget_s=900, max_paths=300000))
    obs.append(Ob("geometry", dict(), LIN, fn="run_geometry", weight=1))
    for name in PATTERNS:
        obs.append(Ob(f"pattern/{name}/witness", dict(fn=name, mode="witness"), PAT, fn="run_pattern", weight=30, budget_s=900))
        # 'all histories of >= 10 candles followed by a witness': the shortest one (witness at index 10)
        obs.append(Ob(f"pattern/{name}/witness after exactly 10 candles", dict(fn=name, mode="witness", n=11), PAT, fn="run_pattern", weight=30, budget_s=900))
        for k in range(CLAUSES[name]):
            obs.append(Ob(f"pattern/{name}/break-clause-{k}", dict(fn=name, mode="break", clause=k), PAT, fn="run_pattern", weight=30, budget_s=900))
        obs.append(Ob(f"pattern/{name}/shift-invariance", dict(fn=name, mode="shift"), PAT, fn="run_invariance", weight=30, budget_s=900))
        obs.append(Ob(f"pattern/{name}/scale-invariance", dict(fn=name, mode="scale"), dict(PAT, fresh_timeout_ms=120000), fn="run_invariance", weight=60, budget_s=1800))
    for name in ("rising", "highestbar", "crossover", "mean_falling", "value_range"):
        obs.append(Ob(f"movement/{name}/shift+scale-invariance", dict(fn=name, N=3), LIN, fn="run_move_invariance", weight=20, budget_s=900))
    return obs


def series_of(cs, key):
    return [c.indicators.get(key) for c in cs]


def run_movement(ctx, P):
    name, N = P["fn"], P["N"]
    f = get_fn(name)
    kw = dict(MOVES[name])
    use_b = "B" in kw.values()
    cs = mk_marked(ctx, N, use_b)
    a, b = series_of(cs, "A"), series_of(cs, "B")
    L = None
    if name in HAS_LENGTH:
        L = ctx.integer("length", 1, N + 1)
        kw["length"] = L
    i = ctx.integer("index", 1, N - 1)
    got = f(cs, index=i, **kw)
    ctx.observe("result", got)
    exp = {
        "above": lambda: R.above(a, b, i), "below": lambda: R.below(a, b, i),
        "rising": lambda: R.rising(a, i, L), "falling": lambda: R.falling(a, i, L),
        "mean_rising": lambda: R.mean_rising(a, i, L), "mean_falling": lambda: R.mean_falling(a, i, L),
        "highest": lambda: R.highest(ctx, a, i, L), "lowest": lambda: R.lowest(ctx, a, i, L),
        "highestbar": lambda: R.extreme_bar(a, i, L, True), "lowestbar": lambda: R.extreme_bar(a, i, L, False),
        "value_range": lambda: R.value_range(ctx, a, i, L),
        "crossover": lambda: R.crossover(a, b, i, L), "crossunder": lambda: R.crossunder(a, b, i, L),
    }[name]()
    ctx.equal("library==documented-meaning", got, exp)
    if isinstance(exp, bool) and exp:
        # a missing reading never makes a predicate true: the current reading(s) it speaks about exist
        need = [a[i]] + ([b[i]] if use_b and name in ("above", "below") else [])
        if name in ("above", "below", "rising", "falling", "mean_rising", "mean_falling"):
            ctx.require("true-only-with-present-readings", all(x is not None for x in need))


def run_geometry(ctx, P):
    _, _, Candle, _, _ = lib()
    o, h, l, c, v = sym_ohlcv(ctx, 0)
    cd = Candle(o, h, l, c, v)
    ctx.observe("geometry", [cd.realbody, cd.shadow_upper, cd.shadow_lower, cd.high_low])
    ctx.equal("realbody==|open-close|", cd.realbody, ctx.abs(o - c))
    ctx.equal("shadow_upper==high-max(open,close)", cd.shadow_upper, h - ctx.max(o, c))
    ctx.equal("shadow_lower==min(open,close)-low", cd.shadow_lower, ctx.min(o, c) - l)
    ctx.equal("high_low==high-low", cd.high_low, h - l)
    ctx.equal("positive<=>close>open", cd.positive, c > o)
    ctx.equal("negative<=>close<open", cd.negative, c < o)
    from hexital.analysis import movement
    ctx.equal("movement.positive(candle)", movement.positive(cd), c > o)
    ctx.equal("movement.negative([candle])", movement.negative([cd]), c < o)
    # the same candle after its values changed (a later raw candle merged into the bucket it forms): the shape follows
    # the values the candle has NOW
    o2, h2, l2, c2, v2 = sym_ohlcv(ctx, 1)
    cd.merge(Candle(o2, h2, l2, c2, v2))
    mo, mh, ml, mc = cd.open, cd.high, cd.low, cd.close
    ctx.equal("merged: values", [mo, mh, ml, mc], [o, ctx.max(h, h2), ctx.min(l, l2), c2])
    ctx.equal("merged: realbody==|open-close|", cd.realbody, ctx.abs(mo - mc))
    ctx.equal("merged: shadow_upper==high-max(open,close)", cd.shadow_upper, mh - ctx.max(mo, mc))
    ctx.equal("merged: shadow_lower==min(open,close)-low", cd.shadow_lower, ctx.min(mo, mc) - ml)
    ctx.equal("merged: high_low==high-low", cd.high_low, mh - ml)
    ctx.equal("merged: positive<=>close>open", cd.positive, mc > mo)
    ctx.equal("merged: negative<=>close<open", cd.negative, mc < mo)


# ------------------------------------------------------------------ patterns
def body(c):
    return abs(c.open - c.close)


def rng(c):
    return c.high - c.low


def avgs(cs, i, n, f):
    """(average over the n candles before i, average over the n candles ending at i)"""
    return sum(f(c) for c in cs[i - n: i]) / n, sum(f(c) for c in cs[i - n + 1: i + 1]) / n


def clauses(ctx, name, cs, i, m):
    """list of (holds-with-margin m, fails-with-margin m) per documented clause, at candle i"""
    c, p = cs[i], cs[i - 1]
    hl_a, hl_b = avgs(cs, i, 10, rng)
    bd_a, bd_b = avgs(cs, i, 10, body)
    lo_hl, hi_hl = ctx.min(hl_a, hl_b), ctx.max(hl_a, hl_b)
    lo_bd, hi_bd = ctx.min(bd_a, bd_b), ctx.max(bd_a, bd_b)
    up = c.high - ctx.max(c.open, c.close)
    dn = ctx.min(c.open, c.close) - c.low
    top, bot = ctx.max(c.open, c.close), ctx.min(c.open, c.close)
    ptop, pbot = ctx.max(p.open, p.close), ctx.min(p.open, p.close)
    if name == "doji":       # body shorter than 10% of the average high-low range of the 10 previous candles
        return [(body(c) * m < 0.1 * lo_hl, body(c) > 0.1 * hi_hl * m)]
    if name == "dojistar":   # long previous body, doji body, body gapping away in the direction of the previous candle
        pbd_a, pbd_b = avgs(cs, i - 1, 10, body)
        return [
            (body(p) > ctx.max(pbd_a, pbd_b) * m, body(p) * m < ctx.min(pbd_a, pbd_b)),
            (body(c) * m < 0.1 * lo_hl, body(c) > 0.1 * hi_hl * m),
            (((p.close > p.open) & (bot > ptop)) | ((p.close < p.open) & (top < pbot)), ((p.close > p.open) & (bot < ptop)) | ((p.close < p.open) & (top > pbot))),
        ]
    if name == "hammer":     # small body, long lower shadow, very short upper shadow, body near or below the previous low
        near_a, near_b = avgs(cs, i - 1, 5, rng)
        return [
            (body(c) * m < lo_bd, body(c) > hi_bd * m),
            (dn > body(c) * m, dn * m < body(c)),
            (up * m < 0.1 * lo_hl, up > 0.1 * hi_hl * m),
            (bot <= p.low, bot > p.low + 0.2 * ctx.max(near_a, near_b) * m),
        ]
    if name == "inverted_hammer":   # small body, long upper shadow, very short lower shadow, body gapping down
        return [
            (body(c) * m < lo_bd, body(c) > hi_bd * m),
            (up > body(c) * m, up * m < body(c)),
            (dn * m < 0.1 * lo_hl, dn > 0.1 * hi_hl * m),
            (top < pbot, bot > ptop),
        ]
    raise KeyError(name)


def run_pattern(ctx, P):
    name = P["fn"]
    f = get_fn(name)
    n = P.get("n", 12)
    cs = mk_candles(ctx, n)
    i = n - 1
    for c in cs:                      # keep the history non-degenerate so that 2x margins exist
        ctx.assume(c.high - c.low >= 1)
    cl = clauses(ctx, name, cs, i, 2)
    if P["mode"] == "witness":
        for ok, bad in cl:
            ctx.assume(ok)
        got = f(cs, index=i)
        ctx.observe("reported", got)
        ctx.require("every clause met with 2x margin => reported", got == True, "pattern not reported")  # noqa: E712
        ctx.require("reported at the default index too", f(cs) == True)  # noqa: E712
    else:
        k = P["clause"]
        for j, (ok, bad) in enumerate(cl):
            ctx.assume(bad if j == k else ok)
        got = f(cs, index=i)
        ctx.observe("reported", got)
        ctx.require(f"clause {k} broken by 2x => not reported", got == False, "pattern reported although a clause is clearly violated")  # noqa: E712


def run_invariance(ctx, P):
    _, _, Candle, _, _ = lib()
    name = P["fn"]
    f = get_fn(name)
    n = 12
    cs = mk_candles(ctx, n)
    if P["mode"] == "shift":
        s = ctx.real("shift", -PRICE_HI, PRICE_HI)
        for c in cs:
            ctx.assume(c.low + s > 0)
        cs2 = [Candle(c.open + s, c.high + s, c.low + s, c.close + s, c.volume, timestamp=c.timestamp) for c in cs]
    else:
        a = ctx.real("factor", 0, 1000, lo_strict=True)
        ctx.assume(a >= 0.001)
        cs2 = [Candle(c.open * a, c.high * a, c.low * a, c.close * a, c.volume, timestamp=c.timestamp) for c in cs]
    r1, r2 = f(cs, index=n - 1), f(cs2, index=n - 1)
    ctx.observe("reported", [r1, r2])
    ctx.equal(f"{P['mode']}-invariant", r1, r2)


def run_move_invariance(ctx, P):
    name, N = P["fn"], P["N"]
    f = get_fn(name)
    kw = dict(MOVES[name])
    use_b = "B" in kw.values()
    cs = mk_marked(ctx, N, use_b)
    if name in HAS_LENGTH:
        kw["length"] = 2
    s = ctx.real("shift", -1000, 1000)
    a = ctx.real("factor", 0, 1000, lo_strict=True)
    ctx.assume(a >= 0.001)
    _, _, Candle, _, _ = lib()

    def tr(g):
        out = clone(cs)
        for c, o in zip(cs, out):
            for k, v in c.indicators.items():
                o.indicators[k] = g(v)
        return out
    base = f(cs, index=N - 1, **kw)
    ctx.observe("result", base)
    sh = f(tr(lambda v: v + s), index=N - 1, **kw)
    sc = f(tr(lambda v: v * a), index=N - 1, **kw)
    if isinstance(base, bool) or type(base).__name__ == "SymBool" or name.endswith("bar"):
        ctx.equal("shift-invariant", base, sh)
        ctx.equal("scale-invariant", base, sc)
    else:   # value_range is a difference: invariant under shift, scales with the factor
        if base is None:
            ctx.require("shift-invariant", sh is None)
            ctx.require("scale-invariant", sc is None)
        else:
            ctx.equal("shift-invariant", base, sh)
            ctx.equal("scale-covariant", base * a, sc)


META = dict(
    bounds=dict(quick="movements: N=3 candles, readings A/B symbolic-or-missing, index in [1,2], length in [1,4]; geometry: one symbolic well-formed candle; patterns: 12 symbolic candles (history range >= 1 each), witness / one-clause-broken constraints with 2x margins on every threshold, shift by a symbolic constant, scaling by a symbolic factor in [0.001, 1000]; geometry re-read after Candle.merge with a second symbolic candle",
                thorough="movements N=4"),
    stubs=["exact real arithmetic (scale invariance is nonlinear: z3 nlsat)", "max/min/abs -> If-terms"],
    assumptions=["highestbar/lowestbar look at the `length` bars ending at the current one (the window Aroon relies on); highest/lowest/value_range at the current candle and the `length` before it", "pattern thresholds: TA-Lib candle settings (BodyLong/BodyShort: average body of 10; Doji/ShadowVeryShort: 10% of average range of 10; Near: 20% of average range of 5); ShadowLong: longer than the body"],
    explanation="library predicates vs reference predicates / documented clauses decided by z3 for all values on every path",
)

# families added after the seeding rounds (kept next to the original bound so that MANIFEST / evidence stay current)
META["bounds"] = dict(META["bounds"], quick=META["bounds"]["quick"] + "; added after the seeding rounds: " + 'pattern obligations under the eps rounding model; witness directly after exactly 10 candles; geometry after Candle.merge')
