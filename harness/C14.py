"""C14 - maintenance operations are idempotent and always converge to the batch state.

Real code: Hexital.calculate/purge/recalculate/calculate_index/add_indicator/remove_indicator/append,
Indicator.calculate/calculate_index/purge/recalculate/_find_calc_index, CandleManager.purge.
Programs: every sequence of operations up to the tier's length over the property's alphabet, executed on a Hexital
holding the indicator under test X and a bystander; all candle values symbolic. After each operation the
per-candle indicators/sub_indicators dicts are compared (terms) with what the property prescribes."""
import itertools

from harness.common import *  # noqa
from harness.common import _cp

PROPERTY = "C14"
CFG = dict(round="uf", nl_uf=True, div="assume", sqrt="assume")
HEAVY = {"aroon", "ADX", "RSI", "Supertrend", "OBV", "KC", "STOCH", "TSI", "MACD", "HMA", "Counter"}
COMPOSITE = {"HMA", "ATR", "STDEV", "BBANDS", "KC", "Supertrend", "STDEVTHRES", "RSI", "MACD", "STOCH", "TSI", "ADX", "VWAP"}
OPS = ["append", "calc", "calcX", "purge", "purgeX", "recalc", "recalcX", "cidx+", "cidx-1", "cidx-2", "remove", "add", "addT", "removeT"]


def obligations(tier):
    obs = []
    L = 2 if tier == "quick" else 3
    specs = all_specs(tier) + [("ind", name, dict(kw, **extra), w) for name, kw, w, extra in CONFIG_VARIANTS if name in ("EMA", "SMA", "BBANDS", "MACD", "VWMA", "ATR")]
    for kind, name, kw, w in specs:
        if kind == "amorph" and name not in ("rising", "highest", "crossover", "positive"):
            continue
        heavy = name in HEAVY
        n = w + (3 if not heavy else 2) + (1 if tier == "thorough" else 0)
        if name == "ADX":
            n = w + 1
        for first in OPS:
            if heavy and tier == "quick" and first not in ("append", "purgeX", "recalcX", "cidx-1", "remove", "addT"):
                continue
            obs.append(Ob(f"{spec_name((kind, name, kw))}/first={first}/len<={L}/n={n}", dict(spec=[kind, name, kw], n=n, first=first, L=(L if not (heavy and tier == "quick") else 2), heavy=heavy), CFG,
                          weight=n * (10 if heavy else 1), budget_s=900 if tier == "quick" else 7200, max_paths=50000))
        # same programs from the other initial state: X registered but never calculated yet (helpers not yet created)
        if name in COMPOSITE and name != "ADX":
            for first in ("purgeX", "recalcX", "purge", "recalc", "calcX", "append"):
                obs.append(Ob(f"{spec_name((kind, name, kw))}/fresh/first={first}/len<=3/n={n}", dict(spec=[kind, name, kw], n=n, first=first, L=3, heavy=True, fresh=True), CFG,
                              weight=n * 10, budget_s=900 if tier == "quick" else 7200, max_paths=50000))
    return obs


def state(hx):
    return {tf: [dict(ind=_cp(c.indicators), sub=_cp(c.sub_indicators)) for c in cs] for tf, cs in hx.get_candles().items()}


def programs(first, L, heavy):
    second = OPS if not heavy else ["append", "calc", "purgeX", "cidx-1", "add", "addT", "purge"]
    progs = [(first,)]
    if L >= 2:
        progs += [(first, b) for b in second]
    if L >= 3 and not heavy:
        progs += [(first, b, c) for b in OPS for c in ("append", "calc", "purgeX", "recalcX", "cidx-1", "cidx+", "remove", "add", "purge")]
    if L >= 3 and heavy:
        progs += [(first, b, c) for b in ("calc", "append", "recalcX") for c in ("purgeX", "recalcX", "remove")]
    return progs


def run(ctx, P):
    _, _, Candle, _, Hexital = lib()
    spec = tuple(P["spec"][:3])
    n = P["n"]
    cs = mk_candles(ctx, n)
    pending0 = 2
    # keys X alone writes (own reading + helper series at any depth)
    solo = build_any(spec, candles=clone(cs))
    solo.calculate()
    xname = solo.name
    xkeys = set()
    for c in solo.candles:
        xkeys |= set(c.indicators) | set(c.sub_indicators)
    ctx.observe("X", solo.as_list())
    for prog in programs(P["first"], P["L"], P.get("heavy")):
        lab = "[" + ",".join(prog) + "]"
        src = clone(cs)
        hx = Hexital("hx", src[: n - pending0], [build_any(spec), build("WMA", dict(period=2, name_suffix="by"))])
        registered = True
        has_tf = had_tf = False
        clean_x = clean_all = True          # X's readings complete / every registered indicator's readings complete
        if P.get("fresh"):
            clean_x = clean_all = False
        else:
            hx.calculate()
        pos = n - pending0
        for op in prog:
            before = state(hx)
            if op == "append":
                if pos < n:
                    hx.append(src[pos])      # append = candle-manager append + calculate() of everything registered
                    pos += 1
                    clean_all, clean_x = True, registered
                continue
            if op in ("calc", "calcX"):
                hx.calculate(None if op == "calc" else xname)
                if clean_all or (op == "calcX" and clean_x):
                    ctx.equal("calculate-again-changes-nothing" + lab, state(hx), before)
                if op == "calc":
                    clean_all, clean_x = True, registered
                elif registered:
                    clean_x = True
                continue
            if op in ("purge", "purgeX"):
                hx.purge(None if op == "purge" else xname)
                after = state(hx)
                for tf in after:
                    for i, (a, b) in enumerate(zip(after[tf], before[tf])):
                        gone = (xkeys if registered else set()) if op == "purgeX" else None
                        for store in ("ind", "sub"):
                            left = set(a[store])
                            if gone is None:
                                ctx.require("purge-all-removes-everything" + lab, not left, f"candle {i} {store} keeps {sorted(left)}")
                            else:
                                ctx.require("purge-removes-every-own-entry" + lab, not (left & gone), f"candle {i} {store} keeps {sorted(left & gone)}")
                                keep = {k: v for k, v in b[store].items() if k not in gone}
                                ctx.equal("purge-touches-nothing-else" + lab, a[store], keep)
                if op == "purge" or registered:
                    clean_all = False
                    clean_x = False
                continue
            if op in ("recalc", "recalcX"):
                hx.recalculate(None if op == "recalc" else xname)
                if clean_all or (op == "recalcX" and clean_x):
                    ctx.equal("recalculate-reproduces" + lab, state(hx), before)
                if op == "recalc":
                    clean_all, clean_x = True, registered
                elif registered:
                    clean_x = True
                continue
            if op.startswith("cidx"):
                if not (clean_x and registered):
                    continue   # precondition of the property: the reading and its predecessors are computed
                m = len(hx.candles())
                idx = {"cidx+": m - 1, "cidx-1": -1, "cidx-2": -2}[op]
                if m < 2:
                    continue
                # the stored reading of that candle is dropped first: calculate_index must really compute the index it
                # is given (a call that silently does nothing would otherwise 'reproduce' everything)
                tgt = hx.indicator(xname).candles[idx]
                tgt.indicators.pop(xname, None)
                hx.calculate_index(xname, idx)
                ctx.equal("calculate_index-reproduces" + lab, state(hx), before)
                continue
            if op == "remove":
                hx.remove_indicator(xname)
                registered = False
                clean_x = False
                continue
            if op == "removeT":
                # the member with its own timeframe leaves again (the only member of that timeframe)
                if has_tf:
                    hx.remove_indicator("SMA_2_T2_tf")
                    has_tf = False
                continue
            if op == "addT":
                # a further member that brings its own timeframe joins the populated Hexital: a new candle list is seeded
                if not has_tf:
                    hx.add_indicator(build("SMA", dict(period=2, name_suffix="tf"), timeframe="T2"))
                    has_tf = had_tf = True
                    clean_all = False
                continue
            if op == "add":
                if not registered:
                    hx.add_indicator(build_any(spec))
                    registered = True
                    clean_x = clean_all = False
                continue
        # convergence: a final calculate() never raises and leaves the batch state for the current candles
        hx.calculate()
        cur = clone(cs)[:pos]
        members = [build_any(spec), build("WMA", dict(period=2, name_suffix="by"))] if registered else [build("WMA", dict(period=2, name_suffix="by"))]
        if has_tf:
            members.append(build("SMA", dict(period=2, name_suffix="tf"), timeframe="T2"))
        batch = Hexital("b", cur, members)
        batch.calculate()
        for nm in batch.indicators:
            ctx.equal("converges-to-batch" + lab, hx.indicator(nm).as_list(), batch.indicator(nm).as_list())
        got, exp = state(hx), state(batch)
        if registered and had_tf and not has_tf:
            exp = dict(exp, T2=[dict(ind={}, sub={}) for _ in got.get("T2", [])])      # the emptied timeframe keeps its (reading-free) candles
        if registered:
            ctx.equal("final-state==batch-state" + lab, got, exp)
        else:
            # after remove_indicator nothing of X may be left behind
            for tf in got:
                for i, a in enumerate(got[tf]):
                    left = (set(a["ind"]) | set(a["sub"])) & xkeys
                    ctx.require("remove-leaves-nothing" + lab, not left, f"candle {i} keeps {sorted(left)}")
        # whatever was removed comes back after one more candle has arrived: again the batch state for the current candles
        if (not registered) or (had_tf and not has_tf):
            if pos < n:
                hx.append(src[pos])
                pos += 1
            if not registered:
                hx.add_indicator(build_any(spec))
            if had_tf and not has_tf:
                hx.add_indicator(build("SMA", dict(period=2, name_suffix="tf"), timeframe="T2"))
            hx.calculate()
            full = Hexital("b2", clone(cs)[:pos], [build_any(spec), build("WMA", dict(period=2, name_suffix="by"))] + ([build("SMA", dict(period=2, name_suffix="tf"), timeframe="T2")] if had_tf else []))
            full.calculate()
            for nm in full.indicators:
                ctx.equal("re-added members converge to batch" + lab, hx.indicator(nm).as_list(), full.indicator(nm).as_list())
            ctx.equal("state after re-adding == batch-state" + lab, state(hx), state(full))


META = dict(
    bounds=dict(quick="all operation sequences of length <= 2 over {append, calculate, calculate(X), purge, purge(X), recalculate, recalculate(X), calculate_index(X, last / -1 / -2), remove_indicator(X), add_indicator(X), add_indicator / remove_indicator(a member with its own timeframe T2)}; after each program, whatever was removed is added back after one more append and the state must again be the batch state for the non-branching indicators (value-branching ones: 5 first ops x 5 second ops), on a Hexital with X and a bystander WMA(2) named WMA_2_by; n = warm-up+3..4 candles, 2 of them pending for append; the composite indicators additionally from the initial state 'registered, never calculated' with programs of length <= 3",
                thorough="length <= 3 (third op from 8), n+1, periods 2 and 3"),
    stubs=["exact real arithmetic, uninterpreted rounding and products"],
    assumptions=["calculate_index is only issued when X's readings are complete (the property's precondition)"],
    explanation="after every operation the full per-candle reading dictionaries are term-compared with the state the property prescribes; all candle values symbolic",
)

# families added after the seeding rounds (kept next to the original bound so that MANIFEST / evidence stay current)
META["bounds"] = dict(META["bounds"], quick=META["bounds"]["quick"] + "; added after the seeding rounds: " + 'add / remove of a member with its own timeframe in the alphabet; whatever was removed is added back after one more append; calculate_index after dropping the stored reading')
