"""Shared machinery of C04/C05/C06: run a real indicator over symbolic candles and compare every
reading (None pattern + value) with the independent definition in refs/definitions.py."""
from harness.common import *  # noqa
from refs import definitions as R

DEF = dict(round="ideal", nl_uf=False, div="assume", sqrt="assume", timeout_ms=3000, fresh_timeout_ms=20000)
RV = 10  # round_value used by these checks: rounding error 5e-11 per stored value, far below the margins


def series(cs):
    return ([c.open for c in cs], [c.high for c in cs], [c.low for c in cs], [c.close for c in cs], [c.volume for c in cs])


def expected(ctx, name, kw, cs, x=None):
    """reference readings for indicator `name` over candles cs (x = the input series when not a price field)"""
    o, h, l, c, v = series(cs)
    inp = x if x is not None else {"close": c, "high": h, "low": l, "open": o}[kw.get("input_value", "close")]
    p = kw.get("period")
    K = ctx
    if name == "SMA":
        return R.sma(inp, p)
    if name == "EMA":
        return R.ema(inp, p, kw.get("smoothing", 2.0))
    if name == "RMA":
        return R.rma(inp, p)
    if name == "WMA":
        return R.wma(inp, p)
    if name == "VWMA":
        return R.vwma(c, v, p)
    if name == "HMA":
        return R.hma(inp, p)
    if name == "TR":
        return R.true_range(K, h, l, c)
    if name == "ATR":
        return R.atr(K, h, l, c, p)
    if name == "STDEV":
        var = R.variance(inp, p)
        return [None if (i < p or u is None) else ("sq", u) for i, u in enumerate(var)]
    if name == "BBANDS":
        m, var = R.sma(inp, p), R.variance(inp, p)
        return [dict(BBL=None, BBM=None, BBU=None) if i < p else dict(BBL=("m-2s", m[i], var[i]), BBM=m[i], BBU=("m+2s", m[i], var[i])) for i in range(len(inp))]
    if name == "KC":
        e, a = R.ema(inp, p), R.atr(K, h, l, c, p)
        mult = kw.get("multiplier", 2.0)
        return [dict(lower=None, band=None, upper=None) if (e[i] is None or a[i] is None) else dict(lower=e[i] - mult * a[i], band=e[i], upper=e[i] + mult * a[i]) for i in range(len(c))]
    if name == "donchian":
        return R.donchian(K, h, l, p)
    if name == "HL":
        hh, ll = R.window_high(K, h, p + 1), R.window_low(K, l, p + 1)
        return [dict(low=ll[i], high=hh[i]) for i in range(len(c))]
    if name == "HLA":
        return [(h[i] + l[i]) / 2 for i in range(len(c))]
    if name == "Supertrend":
        return R.supertrend(K, h, l, c, p, kw.get("multiplier", 3.0))
    if name == "STDEVTHRES":
        var = R.variance(inp, p)
        mult = kw.get("multiplier", 2.0)
        out = []
        for i in range(len(inp)):
            if i < p:
                out.append(False)
            else:
                d = inp[i] - inp[i - 1]
                # |d| > mult*sigma  <=>  d^2 > mult^2 * variance   (both sides non-negative)
                out.append(("flag", d * d, mult * mult * var[i]))
        return out
    if name == "RSI":
        return R.rsi(K, inp, p)
    if name == "MACD":
        return R.macd(inp, kw.get("fast_period", 12), kw.get("slow_period", 26), kw.get("signal_period", 9))
    if name == "ROC":
        return R.roc(inp, p)
    if name == "STOCH":
        return R.stoch(K, h, l, c, p, kw.get("slow_period", 3), kw.get("smoothing_k", 3))
    if name == "TSI":
        sp = kw.get("smooth_period") or (int(p / 2) + (p % 2 > 0))
        return R.tsi(K, inp, p, sp)
    if name == "aroon":
        return R.aroon(h, l, p)
    if name == "ADX":
        return R.adx(K, h, l, c, p, kw.get("period_signal") or p)
    if name == "OBV":
        return R.obv(c, v)
    if name == "VWAP":
        return R.vwap(h, l, c, v)
    raise KeyError(name)


def tol_for(ctx, ref):
    """margin a deviation must exceed to count. The solver is asked for the full margin, the concrete replay
    confirms with half of it: helper series inside composite indicators are rounded to 4 decimals by the
    library itself (noise ~1e-4 per value), which the exact-arithmetic model does not see."""
    m = 1e-2 + 1e-3 * ctx.abs(ref)
    return m if ctx.symbolic else m / 2


def compare_leaf(ctx, label, got, ref):
    if isinstance(ref, tuple):
        kind = ref[0]
        if got is None:
            return ctx.fail(label, f"reading missing where the definition has a value")
        if kind == "sq":         # got is a standard deviation: non-negative and got^2 == variance
            ctx.require(label + ":nonneg", got >= 0)
            return ctx.close(label, got * got, ref[1], tol_for(ctx, ref[1]))
        if kind in ("m-2s", "m+2s"):
            m, var = ref[1], ref[2]
            off = (m - got) if kind == "m-2s" else (got - m)   # must be 2*sigma >= 0
            ctx.require(label + ":side", off >= 0)
            return ctx.close(label, off * off, 4 * var, tol_for(ctx, 4 * var))
        if kind == "flag":
            lhs, rhs = ref[1], ref[2]
            # only decided when the definition is clear of the threshold by a margin
            m = 1e-2 + 1e-3 * rhs
            ctx.implies(label + ":set", lhs > rhs + m, got == True)  # noqa: E712
            # the one tie that involves no rounding at all: no movement is never 'more than' a non-negative threshold
            ctx.implies(label + ":no-movement", lhs == 0, got == False)  # noqa: E712
            return ctx.implies(label + ":clear", lhs < rhs - m, got == False)  # noqa: E712
    if ref is None or got is None:
        return ctx.require(label + ":none-pattern", ref is None and got is None, f"library {got!r} vs definition {ref!r}")
    if isinstance(ref, bool) or isinstance(got, bool):
        return ctx.require(label, got == ref, f"library {got!r} vs definition {ref!r}")
    if isinstance(ref, int) and isinstance(got, int) and not ctx.symbolic:
        return ctx.require(label, got == ref, f"library {got!r} vs definition {ref!r}")
    return ctx.close(label, got, ref, tol_for(ctx, ref))


def compare_series(ctx, name, got, ref):
    if not ctx.require(f"{name}:length", len(got) == len(ref)):
        return
    for i, (g, r) in enumerate(zip(got, ref)):
        if isinstance(r, dict):
            if not isinstance(g, dict):
                ctx.fail(f"{name}:shape", f"index {i}: library {g!r} vs definition dict")
                continue
            if not ctx.require(f"{name}:fields", set(g.keys()) == set(r.keys()), f"library fields {sorted(g)} vs {sorted(r)}"):
                continue
            for k in r:
                compare_leaf(ctx, f"{name}.{k}", g[k], r[k])
        else:
            if isinstance(g, dict):
                ctx.fail(f"{name}:shape", f"index {i}: library dict vs definition {r!r}")
                continue
            compare_leaf(ctx, f"{name}", g, r)


def run_definition(ctx, P):
    kind, name, kw = P["spec"][:3]
    n = P["n"]
    cs = mk_candles(ctx, n)
    if P.get("posvol"):
        # only what the definition needs: a non-zero denominator (single candles may well have zero volume)
        pv = (P["spec"][2].get("period") if P["spec"][1] == "VWMA" else None)
        if pv:
            for i in range(pv - 1, n):
                ctx.assume(sum(c.volume for c in cs[i - pv + 1: i + 1]) > 0)
        else:
            ctx.assume(cs[0].volume > 0)
    x = None
    kw2 = dict(kw)
    s = P.get("late")
    if s is not None:
        # the input is another indicator's reading `X` that starts late: None on the first s candles
        x = [None] * s + [ctx.real(f"x{i}", -PRICE_HI, PRICE_HI) for i in range(s, n)]
        for c, xv in zip(cs, x):
            if xv is not None:
                c.indicators["X"] = xv
        kw2["input_value"] = "X"
    if P.get("feed") == "live-T2":
        # the definition over the T2 buckets of the stream (reference resampler), the library fed one raw candle at a time:
        # every bucket is re-formed by merges before it closes
        from types import SimpleNamespace
        from harness.tfcommon import ref_resample
        ind = build(name, kw2, candles=[], round_value=RV, timeframe="T2", **(P.get("extra") or {}))
        for c in clone(cs):
            ind.append(c)
        got = ind.as_list()
        ctx.observe("readings", got)
        buckets = [SimpleNamespace(**{f: b[f] for f in FIELDS}) for b in ref_resample(ctx, cs, [ctx.sec_of(c.timestamp) for c in cs], 120)]
        ref = expected(ctx, name, kw2, buckets, None)
        compare_series(ctx, name, got, ref)
        return ind, buckets, got, ref, None
    if P.get("feed") == "live-lifespan":
        # fed live under a candle lifespan that always keeps what a new reading looks back on: the retained candles carry the
        # readings the definition gives them over the WHOLE stream (trimming the head must not restart any helper series)
        from datetime import timedelta
        L = P["life_minutes"]
        ind = build(name, kw2, candles=[], round_value=RV, candles_lifespan=timedelta(minutes=L), **(P.get("extra") or {}))
        for c in clone(cs):
            ind.append(c)
        got = ind.as_list()
        ctx.observe("readings", got)
        m = len(got)
        if not ctx.require(f"{name}:retained-count", m == min(n, L + 1), f"{m} candles retained"):
            return ind, cs, got, None, x
        ref = expected(ctx, name, kw2, cs, x)[-m:]
        compare_series(ctx, name, got, ref)
        return ind, cs, got, ref, x
    if P.get("feed") == "cidx-then-append":
        # part of the stream calculated, an OLDER candle recomputed with calculate_index (which must change nothing, also
        # not in the helper series), then the rest of the stream appended: the definition over the whole stream
        k = P["k"]
        src = clone(cs)
        ind = build(name, kw2, candles=src[:k], round_value=RV, **(P.get("extra") or {}))
        ind.calculate()
        ind.calculate_index(k // 2)
        ind.calculate_index(-k + 1) if k >= 3 else None
        for c in src[k:]:
            ind.append(c)
        got = ind.as_list()
        ctx.observe("readings", got)
        ref = expected(ctx, name, kw2, cs, x)
        compare_series(ctx, name, got, ref)
        return ind, cs, got, ref, x
    extra = dict(P.get("extra") or {})
    if P.get("lifespan_days"):
        # a lifespan far longer than the stream (days on a one-minute grid) trims nothing: the definition over all candles
        from datetime import timedelta
        extra["candles_lifespan"] = timedelta(days=P["lifespan_days"], hours=P.get("lifespan_hours", 0))
    ind = build(name, kw2, candles=cs, round_value=RV, **extra)
    ind.calculate()
    got = ind.as_list()
    if P.get("lifespan_days"):
        ctx.require(f"{name}:a lifespan of days keeps a stream of minutes whole", len(ind.candles) == n, f"{len(ind.candles)} of {n} candles retained")
        live = build(name, kw2, candles=[], round_value=RV, **extra)
        for c in clone(cs):
            live.append(c)
        ctx.require(f"{name}:a lifespan of days keeps a stream of minutes whole (appended)", len(live.candles) == n, f"{len(live.candles)} of {n} candles retained")
        if len(live.candles) == n:
            compare_series(ctx, name + "(appended)", live.as_list(), expected(ctx, name, kw2, cs, x))
    ctx.observe("readings", got)
    ref = expected(ctx, name, kw2, cs, x)
    compare_series(ctx, name, got, ref)
    return ind, cs, got, ref, x


def run_swap(ctx, P):
    """a member is removed from a Hexital and one that generates the SAME name but reads another input is added:
    its readings follow the definition over its own input (nothing of the removed member may survive on the candles)"""
    _, _, Candle, _, Hexital = lib()
    kind, name, kw = P["spec"][:3]
    n = P["n"]
    cs = mk_candles(ctx, n)
    first = build(name, dict(kw), round_value=RV)
    hx = Hexital("hx", cs, [first])
    hx.calculate()
    nm = first.name
    kw2 = dict(kw, input_value=P["input"])
    second = build(name, dict(kw2), round_value=RV)
    if not ctx.require("same generated name", second.name == nm, f"{second.name!r} vs {nm!r}"):
        return
    hx.remove_indicator(nm)
    ctx.require("removed member left no entry behind", all(nm not in c.indicators and not any(k == nm or k.startswith(nm + "_") for k in c.sub_indicators) for c in cs),
                "entries of the removed member are still on the candles")
    hx.add_indicator(second)
    hx.calculate()
    got = hx.reading_as_list(nm)
    ctx.observe("readings", got)
    compare_series(ctx, name, got, expected(ctx, name, kw2, cs, None))


def run_sibling(ctx, P):
    """two instances of ONE class with different parameters side by side in a Hexital (a fast and a slow one), the sibling
    registered first: each follows its own definition - helper series of the two must not be confused with one another"""
    _, _, Candle, _, Hexital = lib()
    kind, name, kw = P["spec"][:3]
    n = P["n"]
    cs = mk_candles(ctx, n)
    if P.get("posvol"):
        ctx.assume(cs[0].volume > 0)
        for c in cs:
            ctx.assume(c.volume > 0)
    sib = build(name, dict(P["sibling"]), round_value=RV)
    me = build(name, dict(kw), round_value=RV)
    if sib.name == me.name:
        # the parameter that differs is not part of the generated name: the user tells them apart with a suffix
        sib = build(name, dict(P["sibling"]), round_value=RV, name_suffix="b")
    if not ctx.require("distinct names", sib.name != me.name, f"{sib.name!r}"):
        return
    order = [sib, me] if P.get("sibling_first", True) else [me, sib]
    if P.get("feed") == "append":
        hx = Hexital("hx", [], order)
        for c in clone(cs):
            hx.append(c)
    else:
        hx = Hexital("hx", cs, order)
        hx.calculate()
    for ind, k in ((me, kw), (sib, P["sibling"])):
        got = hx.reading_as_list(ind.name)
        ctx.observe(f"readings {ind.name}", got)
        compare_series(ctx, f"{name}{'' if ind is me else '(sibling)'}", got, expected(ctx, name, dict(k), cs, None))
