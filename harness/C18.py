"""C18 - timeframe bucketing does not depend on the process time zone.

The process zone is a symbolic variable: `datetime.timestamp()` / `datetime.fromtimestamp()` of naive
datetimes inside hexital.utils.timeframe go through a zone model (a) fixed offset 900*k seconds,
k in [-48, 56] symbolic (every quarter-hour zone from UTC-12 to UTC+14), (b) a rule zone with a DST season
(standard +1h, EU-style rules, year 2024; CPython's _mktime algorithm modelled exactly, fold=0).
Oracle: the zone-free reference resampler (which C03 shows equal to the library under UTC).
Counterexamples are replayed with the real TZ environment variable (POSIX TZ string, no tzdata needed)."""
from harness.common import *  # noqa
from harness.tfcommon import *  # noqa

PROPERTY = "C18"
CFG = dict(round="ideal", nl_uf=False, div="assume", timeout_ms=4000)
DST_ON, DST_OFF = 1711846800, 1729990800   # 2024-03-31T01:00Z, 2024-10-27T01:00Z
DST_TZ = "AAA-1BBB,M3.5.0/2,M10.5.0/3"
Y2024 = (1704067200, 1735689599)


def obligations(tier):
    tfs = ["S10", "T5", "T45", "H1", "D1"] if tier == "quick" else ["S5", "T1", "T5", "T45", "H1", "H4", "D1", "D7"]
    obs = []
    for tf in tfs:
        for zone in ("fixed", "dst"):
            for fill in (False, True):
                n = 2 if tier == "quick" else 3
                obs.append(Ob(f"{tf}/zone={zone}/fill={fill}/n={n}", dict(tf=tf, n=n, zone=zone, fill=fill), CFG, weight=10,
                              budget_s=600 if tier == "quick" else 7200, max_paths=300000))
    # a rolling lifespan on top of the collapse (the window is measured on the candles' own clock)
    for tf in ("T5", "H1") if tier == "quick" else ("T5", "T45", "H1", "D1"):
        for zone in ("fixed", "dst"):
            for life in (1, 2):
                n = 3
                obs.append(Ob(f"{tf}/zone={zone}/lifespan={life}buckets/n={n}", dict(tf=tf, n=n, zone=zone, fill=False, life=life), CFG, weight=15,
                              budget_s=600 if tier == "quick" else 7200, max_paths=300000))
    # timestamps handed over as ISO-8601 strings (Candle(...), from_dict, from_dicts): concrete wall-clock values
    # (ordinary ones, and ones around both DST transitions of the rule zone), the zone stays symbolic
    for zone in ("fixed", "dst"):
        for i, stamps in enumerate(ISO_SETS):
            for tf in ("T5", "H1") if tier == "quick" else ("S10", "T5", "T45", "H1", "D1"):
                obs.append(Ob(f"iso-strings/set{i}/{tf}/zone={zone}", dict(tf=tf, zone=zone, stamps=stamps), CFG, fn="run_iso", weight=5, budget_s=600, max_paths=20000))
    return obs


ISO_SETS = [
    ["2024-01-15T09:03:00", "2024-01-15T09:04:30", "2024-01-15T09:05:00", "2024-01-15T09:58:10", "2024-01-15T10:00:00"],
    ["2024-03-31T01:59:00", "2024-03-31T02:30:00", "2024-03-31T03:00:00", "2024-03-31T03:00:05"],       # spring-forward gap of the rule zone
    ["2024-10-27T01:55:00", "2024-10-27T02:00:00", "2024-10-27T02:30:00", "2024-10-27T03:01:00"],       # fall-back overlap
    ["2024-06-30T23:59:59", "2024-07-01T00:00:00", "2024-07-01T00:00:01"],
]


def run_iso(ctx, P):
    from datetime import datetime as _dt
    _, _, Candle, CandleManager, _ = lib()
    tf = P["tf"]
    tfs = tf_secs(tf)
    stamps = P["stamps"]
    n = len(stamps)
    if P["zone"] == "fixed":
        k = ctx.symint("tzk", -48, 56)
    vals = [sym_ohlcv(ctx, i, "") for i in range(n)]
    ts = [int((_dt.fromisoformat(s) - _dt(1970, 1, 1)).total_seconds()) for s in stamps]
    if ctx.symbolic:
        import z3
        from symx import symtime
        symtime.TZ_OFF[0] = symtime.FixedZone(k.t * 900) if P["zone"] == "fixed" else symtime.RuleZone(z3.IntVal(3600), DST_ON, DST_OFF)
    try:
        for form in ("Candle", "from_dict", "from_dicts"):     # from_list documents datetime objects only
            if form == "Candle":
                cs = [Candle(*v, timestamp=s) for v, s in zip(vals, stamps)]
            elif form == "from_dict":
                cs = [Candle.from_dict(dict(open=v[0], high=v[1], low=v[2], close=v[3], volume=v[4], timestamp=s)) for v, s in zip(vals, stamps)]
            else:
                cs = Candle.from_dicts([dict(open=v[0], high=v[1], low=v[2], close=v[3], volume=v[4], timestamp=s) for v, s in zip(vals, stamps)])
            ctx.equal(f"{form}: candle timestamps are the written wall-clock values", [ctx.sec_of(c.timestamp) for c in cs], ts)
            ref = ref_resample(ctx, cs, ts, tfs)
            for label, pre, chunks in (("construction", n, []), ("singles", 0, [1] * n), ("one-chunk", 0, [n]), ("preload1+chunk", 1, [n - 1])):
                m = drive_manager(cs, tf, False, pre, chunks)
                got = lib_view(ctx, m.candles)
                if form == "Candle" and label == "construction":
                    ctx.observe("collapsed", got)
                if ctx.require(f"{form}/{label}:bucket-count", len(got) == len(ref), f"library {len(got)} candles, zone-free reference {len(ref)}"):
                    ctx.equal(f"{form}/{label}:buckets==zone-free-reference", got, ref_view(ref))
    finally:
        if ctx.symbolic:
            symtime.TZ_OFF[0] = None


def posix_tz(offset_s):
    # POSIX sign is inverted: UTC+13:15 is written XXX-13:15
    sign = "-" if offset_s >= 0 else "+"
    a = abs(offset_s)
    return f"XXX{sign}{a // 3600:02d}:{a % 3600 // 60:02d}"


def scenario_tz(sc):
    if sc["params"]["zone"] == "dst":
        return DST_TZ
    return posix_tz(900 * int(sc["inputs"]["tzk"]))


def run(ctx, P):
    tf, n = P["tf"], P["n"]
    tfs = tf_secs(tf)
    fill = P["fill"]
    if P["zone"] == "fixed":
        k = ctx.symint("tzk", -48, 56)
        lo, hi = 86400 * 3, 4 * 10 ** 9
    else:
        lo, hi = Y2024
    life = P.get("life")
    span = 5 * tfs if (fill or life) else None
    cs, ts = mk_candles_symtime(ctx, n, lo=lo, hi=hi, span=span)
    ref = ref_resample(ctx, cs, ts, tfs)
    if fill:
        ref = ref_fill(ctx, ref, tfs, 6)
    if life:
        # a rolling lifespan: what is retained is decided on the candles' own wall clock, not on the process zone's
        newest = ref[-1]["ts"]
        ref = [b for b in ref if bool(b["ts"] >= newest - life * tfs)]
    if ctx.symbolic:
        import z3
        from symx import symtime
        zone = symtime.FixedZone(k.t * 900) if P["zone"] == "fixed" else symtime.RuleZone(z3.IntVal(3600), DST_ON, DST_OFF)
        symtime.TZ_OFF[0] = zone
    try:
        for label, pre, chunks in (("construction", n, []), ("singles", 0, [1] * n), ("one-chunk", 0, [n]), ("preload1+chunk", 1, [n - 1])):
            if life:
                from datetime import timedelta
                _, _, _, CandleManager, _ = lib()
                src = clone(cs)
                m = CandleManager(src[:pre], candles_lifespan=timedelta(seconds=life * tfs), timeframe=tf, timeframe_fill=fill)
                for c in src[pre:]:
                    m.append(c)
            else:
                m = drive_manager(cs, tf, fill, pre, chunks)
            got = lib_view(ctx, m.candles)
            if label == "construction":
                ctx.observe("collapsed", got)
            if ctx.require(f"{label}:bucket-count", len(got) == len(ref), f"library {len(got)} candles, zone-free reference {len(ref)}"):
                ctx.equal(f"{label}:buckets==zone-free-reference", got, ref_view(ref))
    finally:
        if ctx.symbolic:
            symtime.TZ_OFF[0] = None


SELFCHECK = {"quick": 0, "thorough": 0}   # pinned self-validation runs under TZ=UTC only; replays carry the real TZ
META = dict(
    bounds=dict(quick="N=2 candles, timeframes T5/T45/H1/D1, fill off/on (span<=5 buckets), zones: every fixed quarter-hour offset -12h..+14h (symbolic), one EU-style DST zone over 2024 (symbolic timestamps across both transitions); second-based timeframe S10; ISO-8601 string timestamps (4 concrete sets of 3-5 wall-clock values incl. both DST transition nights, via Candle(), from_dict, from_dicts) under the symbolic zone, T5/H1",
                thorough="N=3, timeframes S5,T1,T5,T45,H1,H4,D1,D7"),
    stubs=["naive datetime.timestamp()/fromtimestamp() -> zone model (fixed offset; rule zone with CPython's _mktime algorithm, fold=0)", "datetime -> integer seconds"],
    assumptions=["zones with several transitions per year or non-hour DST shifts are outside the claim", "counterexamples only count when reproduced under the real TZ environment variable"],
    explanation="time zone as a symbolic input; library output compared with a zone-free reference on every feasible path",
)

# families added after the seeding rounds (kept next to the original bound so that MANIFEST / evidence stay current)
META["bounds"] = dict(META["bounds"], quick=META["bounds"]["quick"] + "; added after the seeding rounds: " + 'S10; ISO-8601 string timestamps; rolling lifespan of 1-2 buckets; multi-candle appends; replay stamps are instances of a datetime subclass')
