"""C18 - timeframe bucketing does not depend on the process time zone.

The process zone is a symbolic variable: `datetime.timestamp()` / `datetime.fromtimestamp()` of naive
datetimes inside hexital.utils.timeframe go through a zone model (a) fixed offset 900*k seconds,
k in [-48, 56] symbolic (every quarter-hour zone from UTC-12 to UTC+14), (b) a rule zone with a DST season
(standard +1h, EU-style rules, year 2024; CPython's _mktime algorithm modelled exactly, fold=0).
Oracle: the zone-free reference resampler (which C03 shows equal to the library under UTC).
Counterexamples are replayed with the real TZ environment variable (POSIX TZ string, no tzdata needed)."""
from harness.common import *  # noqa
from harness.tfcommon import *  # noqa

PROPERTY = "C18"
CFG = dict(round="ideal", nl_uf=False, div="assume", timeout_ms=4000)
DST_ON, DST_OFF = 1711846800, 1729990800   # 2024-03-31T01:00Z, 2024-10-27T01:00Z
DST_TZ = "AAA-1BBB,M3.5.0/2,M10.5.0/3"
Y2024 = (1704067200, 1735689599)


def obligations(tier):
    tfs = ["T5", "T45", "H1", "D1"] if tier == "quick" else ["S5", "T1", "T5", "T45", "H1", "H4", "D1", "D7"]
    obs = []
    for tf in tfs:
        for zone in ("fixed", "dst"):
            for fill in (False, True):
                n = 2 if tier == "quick" else 3
                obs.append(Ob(f"{tf}/zone={zone}/fill={fill}/n={n}", dict(tf=tf, n=n, zone=zone, fill=fill), CFG, weight=10,
                              budget_s=600 if tier == "quick" else 7200, max_paths=300000))
    return obs


def posix_tz(offset_s):
    # POSIX sign is inverted: UTC+13:15 is written XXX-13:15
    sign = "-" if offset_s >= 0 else "+"
    a = abs(offset_s)
    return f"XXX{sign}{a // 3600:02d}:{a % 3600 // 60:02d}"


def scenario_tz(sc):
    if sc["params"]["zone"] == "dst":
        return DST_TZ
    return posix_tz(900 * int(sc["inputs"]["tzk"]))


def run(ctx, P):
    tf, n = P["tf"], P["n"]
    tfs = tf_secs(tf)
    fill = P["fill"]
    if P["zone"] == "fixed":
        k = ctx.symint("tzk", -48, 56)
        lo, hi = 86400 * 3, 4 * 10 ** 9
    else:
        lo, hi = Y2024
    span = 5 * tfs if fill else None
    cs, ts = mk_candles_symtime(ctx, n, lo=lo, hi=hi, span=span)
    ref = ref_resample(ctx, cs, ts, tfs)
    if fill:
        ref = ref_fill(ctx, ref, tfs, 6)
    if ctx.symbolic:
        import z3
        from symx import symtime
        zone = symtime.FixedZone(k.t * 900) if P["zone"] == "fixed" else symtime.RuleZone(z3.IntVal(3600), DST_ON, DST_OFF)
        symtime.TZ_OFF[0] = zone
    try:
        for label, pre, chunks in (("construction", n, []), ("singles", 0, [1] * n)):
            m = drive_manager(cs, tf, fill, pre, chunks)
            got = lib_view(ctx, m.candles)
            if label == "construction":
                ctx.observe("collapsed", got)
            if ctx.require(f"{label}:bucket-count", len(got) == len(ref), f"library {len(got)} candles, zone-free reference {len(ref)}"):
                ctx.equal(f"{label}:buckets==zone-free-reference", got, ref_view(ref))
    finally:
        if ctx.symbolic:
            symtime.TZ_OFF[0] = None


SELFCHECK = {"quick": 0, "thorough": 0}   # pinned self-validation runs under TZ=UTC only; replays carry the real TZ
META = dict(
    bounds=dict(quick="N=2 candles, timeframes T5/T45/H1/D1, fill off/on (span<=5 buckets), zones: every fixed quarter-hour offset -12h..+14h (symbolic), one EU-style DST zone over 2024 (symbolic timestamps across both transitions)",
                thorough="N=3, timeframes S5,T1,T5,T45,H1,H4,D1,D7"),
    stubs=["naive datetime.timestamp()/fromtimestamp() -> zone model (fixed offset; rule zone with CPython's _mktime algorithm, fold=0)", "datetime -> integer seconds"],
    assumptions=["zones with several transitions per year or non-hour DST shifts are outside the claim", "counterexamples only count when reproduced under the real TZ environment variable"],
    explanation="time zone as a symbolic input; library output compared with a zone-free reference on every feasible path",
)
