"""C03 - timeframe collapsing equals right-closed, right-labelled OHLCV resampling.

Real code executed symbolically: CandleManager.__init__/append/_tasks/collapse_candles, Candle.merge,
utils.timeframe.round_down_timestamp/on_timeframe/clean_timestamp/timeframe_to_timedelta, and the same
through Indicator(timeframe=) and Hexital.candles(tf). Symbolic: N integer-second timestamps
(non-decreasing, duplicates / arbitrary gaps / on or off an edge all inside) and all OHLCV values."""
from harness.common import *  # noqa
from harness.tfcommon import *  # noqa

PROPERTY = "C03"
CFG = dict(round="ideal", nl_uf=False, div="assume", timeout_ms=4000)


def obligations(tier):
    # H5 does not divide the day: bucket edges counted from the epoch and from midnight disagree there
    # S90: at least a minute but not a whole number of minutes - bucket edges with non-zero seconds
    tfs = ["S10", "S90", "T5", "H1", "H5", "D1"] if tier == "quick" else ["S5", "S90", "S150", "T1", "T5", "T7", "T45", "H1", "H4", "H5", "D1", "D2", "D7"]
    n = 4 if tier == "quick" else 5
    obs = []
    for tf in tfs:
        obs.append(Ob(f"manager/{tf}/n={n}", dict(tf=tf, n=n, via="manager"), CFG, weight=n * 10, budget_s=600 if tier == "quick" else 7200, max_paths=200000))
        obs.append(Ob(f"indicator+hexital/{tf}/n={n - 1}", dict(tf=tf, n=n - 1, via="api"), CFG, weight=n * 5, budget_s=600 if tier == "quick" else 7200, max_paths=200000))
    # timezone-aware timestamps: three feeds of the same instants stamped in UTC, UTC+02:00 and UTC+05:30, collapsed one after
    # the other in the same process - each on ITS OWN wall clock (buckets are counted from midnight of the stamp's zone)
    for tf in (("H1", "H4", "D1") if tier == "quick" else ("T45", "H1", "H4", "H5", "D1", "D2")):
        obs.append(Ob(f"aware-timestamps/{tf}/three zones in one process", dict(tf=tf, n=6), CFG, fn="run_aware", weight=20, budget_s=600))
    # sub-second stamps: the library documents that microseconds are removed (clean_timestamp), so a stream stamped with
    # fractions of a second collapses like the same stream truncated to whole seconds - from the first candle on
    for tf in (("T5", "H1") if tier == "quick" else ("S10", "T1", "T5", "H1", "D1")):
        obs.append(Ob(f"sub-second-timestamps/{tf}", dict(tf=tf, n=6), CFG, fn="run_subsecond", weight=20, budget_s=600))
    return obs


def check_against_ref(ctx, label, candles, ref):
    got = lib_view(ctx, candles)
    if not ctx.require(f"{label}:bucket-count", len(got) == len(ref), f"library has {len(got)} collapsed candles, reference {len(ref)}"):
        return
    ctx.equal(f"{label}:buckets==reference", got, ref_view(ref))


def run_subsecond(ctx, P):
    from datetime import datetime, timedelta
    _, _, Candle, CandleManager, Hexital = lib()
    tf, n = P["tf"], P["n"]
    tfs = tf_secs(tf)
    vals = [sym_ohlcv(ctx, i) for i in range(n)]
    edge = datetime(2024, 3, 4, 9, 0) + timedelta(seconds=tfs)          # a bucket edge
    # first candle a quarter of a second after an edge, the next within the same second, then around the following edges
    offs = [0.25, 0.55, tfs - 0.5, tfs + 0.000001, tfs + 0.999999, 2 * tfs + 1.5][:n]
    stamps = [edge + timedelta(seconds=o) for o in offs]
    whole = [t.replace(microsecond=0) for t in stamps]
    wall = [int((t - datetime(1970, 1, 1)).total_seconds()) for t in whole]
    cs = [Candle(o, h, l, c, v, timestamp=t) for (o, h, l, c, v), t in zip(vals, stamps)]
    cs_whole = [Candle(o, h, l, c, v, timestamp=t) for (o, h, l, c, v), t in zip(vals, whole)]
    exp = ref_view(ref_resample(ctx, cs_whole, wall, tfs))
    view = lambda lst: [dict(ts=int((c.timestamp - datetime(1970, 1, 1)).total_seconds()), open=c.open, high=c.high, low=c.low, close=c.close, volume=c.volume) for c in lst]
    for start in (0, 1, 2):          # the stream may begin at any of these candles
        sub, sub_exp = cs[start:], ref_view(ref_resample(ctx, cs_whole[start:], wall[start:], tfs))
        m = CandleManager(clone(sub), timeframe=tf)
        if start == 0:
            ctx.observe("collapsed", view(m.candles))
        ctx.equal(f"construction from candle {start}: buckets==reference over the whole-second stream", view(m.candles), sub_exp)
        ctx.require(f"construction from candle {start}: no fraction of a second left on a label", all(c.timestamp.microsecond == 0 for c in m.candles))
        m2 = CandleManager([], timeframe=tf)
        for c in clone(sub):
            m2.append(c)
        ctx.equal(f"appended from candle {start}: buckets==reference over the whole-second stream", view(m2.candles), sub_exp)


def run_aware(ctx, P):
    from datetime import datetime, timedelta, timezone
    _, _, Candle, CandleManager, Hexital = lib()
    tf, n = P["tf"], P["n"]
    tfs = tf_secs(tf)
    vals = [sym_ohlcv(ctx, i) for i in range(n)]
    # the same instants for every feed: an irregular grid that straddles several bucket edges of every zone
    step = max(tfs // 3, 60)
    t0 = datetime(2024, 3, 4, 21, 10, tzinfo=timezone.utc)
    instants = [t0 + timedelta(seconds=step * k + (7 * k * k) % step) for k in range(n)]
    for zname, zone in (("UTC", timezone.utc), ("UTC+02:00", timezone(timedelta(hours=2))), ("UTC+05:30", timezone(timedelta(hours=5, minutes=30))), ("UTC again", timezone.utc)):
        stamps = [t.astimezone(zone) for t in instants]
        wall = [int((t.replace(tzinfo=None) - datetime(1970, 1, 1)).total_seconds()) for t in stamps]
        cs = [Candle(o, h, l, c, v, timestamp=t) for (o, h, l, c, v), t in zip(vals, stamps)]
        ref = ref_resample(ctx, cs, wall, tfs)
        view = lambda lst: [dict(ts=int((c.timestamp.replace(tzinfo=None) - datetime(1970, 1, 1)).total_seconds()), zone=str(c.timestamp.tzinfo), open=c.open, high=c.high, low=c.low, close=c.close, volume=c.volume) for c in lst]
        exp = [dict(ts=b["ts"], zone=str(zone), open=b["open"], high=b["high"], low=b["low"], close=b["close"], volume=b["volume"]) for b in ref]
        m = CandleManager(clone(cs), timeframe=tf)
        if zname == "UTC":
            ctx.observe("collapsed", view(m.candles))
        ctx.equal(f"{zname}: construction: buckets==reference on the feed's own wall clock", view(m.candles), exp)
        m2 = CandleManager([], timeframe=tf)
        src = clone(cs)
        m2.append(src[:2])
        for c in src[2:]:
            m2.append(c)
        ctx.equal(f"{zname}: appended: buckets==reference on the feed's own wall clock", view(m2.candles), exp)
        hx = Hexital("h", [], [build("EMA", dict(period=2), timeframe=tf)])
        for c in clone(cs):
            hx.append(c)
        ctx.equal(f"{zname}: Hexital.candles(tf)==reference on the feed's own wall clock", view(hx.candles(tf)), exp)


def run(ctx, P):
    tf, n = P["tf"], P["n"]
    tfs = tf_secs(tf)
    cs, ts = mk_candles_symtime(ctx, n, lo=-2 * 10 ** 9)      # from 1906: the bucket grid also extends below the epoch
    ref = ref_resample(ctx, cs, ts, tfs)
    if P["via"] == "manager":
        m = drive_manager(cs, tf, False, n, [])
        ctx.observe("collapsed", lib_view(ctx, m.candles))
        check_against_ref(ctx, "construction", m.candles, ref)
        # corollaries asserted directly on the library's output
        got = lib_view(ctx, m.candles)
        for i in range(1, len(got)):
            ctx.require("labels-strictly-increasing", got[i]["ts"] > got[i - 1]["ts"])
        tot_in = sum(c.volume for c in cs)
        tot_out = sum(g["volume"] for g in got)
        ctx.require("volume-conserved", tot_in == tot_out)
        for chunks in two_chunk_schedules(n):
            for extra in (0, 2):
                m2 = drive_manager(cs, tf, False, 0, chunks, extra)
                check_against_ref(ctx, f"append[{'+'.join(map(str, chunks))}],recollapse={extra}", m2.candles, ref)
        m3 = drive_manager(cs, tf, False, 1, [1] * (n - 1))
        check_against_ref(ctx, "preload1+singles", m3.candles, ref)
        # ... and at EVERY point of the one-by-one history (a one-candle list included), not only at its end
        _, _, _, CandleManager_, _ = lib()
        live = CandleManager_([], timeframe=tf)
        for k, c in enumerate(clone(cs)):
            live.append(c)
            if k < n - 1:
                check_against_ref(ctx, f"after append {k + 1} of {n}", live.candles, ref_resample(ctx, cs[:k + 1], ts[:k + 1], tfs))
        one = CandleManager_(clone(cs)[:1], timeframe=tf)
        check_against_ref(ctx, "a one-candle stream at construction", one.candles, ref_resample(ctx, cs[:1], ts[:1], tfs))
        # the stream handed over in the other accepted encodings (dicts, capitalised dicts, lists with the timestamp
        # first or last), as one chunk of two and then singles: the buckets are those of the RAW stream
        _, _, Candle, CandleManager, _ = lib()
        forms = {
            "dict": lambda c: dict(open=c.open, high=c.high, low=c.low, close=c.close, volume=c.volume, timestamp=c.timestamp),
            "Dict": lambda c: dict(Open=c.open, High=c.high, Low=c.low, Close=c.close, Volume=c.volume, Timestamp=c.timestamp),
            "list-ts-last": lambda c: [c.open, c.high, c.low, c.close, c.volume, c.timestamp],
            "list-ts-first": lambda c: [c.timestamp, c.open, c.high, c.low, c.close, c.volume],
        }
        for fname, enc in forms.items():
            m4 = CandleManager([], timeframe=tf)
            m4.append([enc(c) for c in cs[:2]])
            for c in cs[2:]:
                m4.append(enc(c))
            check_against_ref(ctx, f"input as {fname}", m4.candles, ref)
        built = Candle.from_dicts([forms["dict"](c) for c in cs]) if n % 2 else Candle.from_lists([forms["list-ts-last"](c) for c in cs])
        check_against_ref(ctx, "Candle.from_dicts / from_lists at construction", CandleManager(built, timeframe=tf).candles, ref)
    else:
        _, _, _, _, Hexital = lib()
        ind = build("EMA", dict(period=2), candles=clone(cs), timeframe=tf)
        check_against_ref(ctx, "Indicator(timeframe)", ind.candles, ref)
        ind2 = build("EMA", dict(period=2), candles=[], timeframe=tf)
        for c in clone(cs):
            ind2.append(c)
        check_against_ref(ctx, "Indicator(timeframe).append", ind2.candles, ref)
        hx = Hexital("h", clone(cs)[:1], [build("EMA", dict(period=2), timeframe=tf), build("SMA", dict(period=2))])
        hx.calculate()
        for c in clone(cs)[1:]:
            hx.append(c)
        check_against_ref(ctx, "Hexital.candles(tf)", hx.candles(tf), ref)
        base = [dict(ts=t, open=c.open, high=c.high, low=c.low, close=c.close, volume=c.volume) for c, t in zip(cs, ts)]
        ctx.equal("Hexital base candles untouched", lib_view(ctx, hx.candles()), base)
        # one feed of Candle objects consumed by two Hexitals that collapse at Hexital level, and a third built later from the
        # very same objects: each holds the buckets of the stream, the feed's own objects stay what they were
        feed = clone(cs)
        first, second = Hexital("a", [], [build("EMA", dict(period=2))], timeframe=tf), Hexital("b", [], [build("SMA", dict(period=2))], timeframe=tf)
        for c in feed:
            first.append(c)
            second.append(c)
        check_against_ref(ctx, "two Hexitals on one feed / first", first.candles(), ref)
        check_against_ref(ctx, "two Hexitals on one feed / second", second.candles(), ref)
        third = Hexital("c", feed, [build("EMA", dict(period=2))], timeframe=tf)
        check_against_ref(ctx, "a Hexital built later from the same objects", third.candles(), ref)


META = dict(
    bounds=dict(quick="N=4 candles (3 through Indicator/Hexital), timeframes S10/T5/H1/H5/D1, timestamps any integers in [-2e9,4e9] s (1906..2096, i.e. also before the epoch) non-decreasing; schedules: construction, one-by-one, every two-chunk split, 1 preloaded + singles, 0 or 2 extra collapse passes",
                thorough="N=5 (4 through the API), timeframes S5,T1,T5,T7,T45,H1,H4,H5,D1,D2,D7"),
    stubs=["datetime -> integer seconds (sub-second part outside the claim)", "process time zone fixed to UTC (C18 makes it symbolic)", "max/min -> If-terms"],
    assumptions=["timestamps are whole seconds", "well-formed OHLCV"],
    explanation="the library's collapse and an independent 12-line resampler are executed on the same symbolic stream; bucket count and all six fields compared by z3 on every feasible path (paths = orderings of timestamps relative to bucket edges)",
)

# families added after the seeding rounds (kept next to the original bound so that MANIFEST / evidence stay current)
META["bounds"] = dict(META["bounds"], quick=META["bounds"]["quick"] + "; added after the seeding rounds: " + 'timestamps from 1906; S90; the stream also as dicts / capitalised dicts / lists; buckets compared after every append and for a one-candle stream; two Hexitals on one feed of Candle objects; 6 concrete timezone-aware instants in UTC / +02:00 / +05:30; 6 concrete sub-second stamps around bucket edges')
