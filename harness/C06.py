"""C06 - momentum, oscillator and volume indicators match their definitions.

Real code: RSI, MACD, ROC, STOCH, TSI, AROON, ADX, OBV, VWAP (+ EMA/RMA/SMA/ATR/TR helpers, Managed series,
movement.highestbar/lowestbar). Oracle: refs/definitions.py."""
from harness.common import *  # noqa
from harness.defs import *  # noqa

PROPERTY = "C06"
SPECS = {
    "RSI": [dict(period=2), dict(period=3)],
    "MACD": [dict(fast_period=2, slow_period=3, signal_period=2), dict(fast_period=3, slow_period=2, signal_period=3)],
    "ROC": [dict(period=2), dict(period=3)],
    "STOCH": [dict(period=2, slow_period=3, smoothing_k=2), dict(period=3, slow_period=2, smoothing_k=1), dict(period=2, slow_period=2, smoothing_k=2)],   # %K and %D smoothing differ
    "TSI": [dict(period=2, smooth_period=2), dict(period=2), dict(period=3)],
    "aroon": [dict(period=2), dict(period=3)],
    "ADX": [dict(period=2), dict(period=2, period_signal=3)],
    "OBV": [dict()],
    "VWAP": [dict()],
}
WARM = {"RSI": lambda k: k["period"], "MACD": lambda k: max(k["fast_period"], k["slow_period"]) + k["signal_period"] - 2, "ROC": lambda k: k["period"],
        "STOCH": lambda k: k["period"] + k["slow_period"] + k["smoothing_k"] - 3, "TSI": lambda k: k["period"] + (k.get("smooth_period") or (int(k["period"] / 2) + (k["period"] % 2 > 0))) - 1,
        "aroon": lambda k: k["period"], "ADX": lambda k: k["period"] + (k.get("period_signal") or k["period"]) - 1, "OBV": lambda k: 0, "VWAP": lambda k: 0}
EXTRA = {"quick": {"RSI": 2, "MACD": 3, "ROC": 3, "STOCH": 3, "TSI": 3, "aroon": 1, "ADX": 0, "OBV": 4, "VWAP": 3},
         "thorough": {"RSI": 3, "MACD": 4, "ROC": 4, "STOCH": 4, "TSI": 4, "aroon": 2, "ADX": 1, "OBV": 5, "VWAP": 4}}
NL = dict(DEF, timeout_ms=5000, fresh_timeout_ms=60000)
# ADX: paths are explored with symbolic products/quotients abstracted (uninterpreted mul/div); an assertion that
# fails under the abstraction is re-decided with the exact meaning of every application on that path
NL_UF = dict(NL, nl_uf=True)


def obligations(tier):
    obs = []
    for name, kws in SPECS.items():
        for j, kw in enumerate(kws):
            if tier == "quick" and (j >= 2 or (name == "ADX" and j >= 1)):
                continue
            n = WARM[name](kw) + 1 + EXTRA[tier][name]
            obs.append(Ob(f"{name}({','.join(f'{k}={v}' for k, v in kw.items())})/n={n}", dict(spec=["ind", name, kw], n=n, posvol=(name == "VWAP")), NL if name != "ADX" else NL_UF,
                          weight=n * (20 if name in ("ADX", "aroon") else 3), budget_s=900 if tier == "quick" else 7200, max_paths=100000))
    for name, kw, extra, n in (("MACD", dict(fast_period=2, slow_period=3, signal_period=2), dict(fullname_override="M.1"), 7), ("OBV", dict(), dict(name_suffix="v1.5"), 5),
                               ("RSI", dict(period=2), dict(name_suffix="1.5"), 5), ("STOCH", dict(period=2, slow_period=3, smoothing_k=2), dict(fullname_override="st.och"), 7),
                               ("TSI", dict(period=2, smooth_period=2), dict(name_suffix="t.s"), 6), ("VWAP", dict(), dict(name_suffix="v.w"), 4), ("aroon", dict(period=2), dict(fullname_override="ar.oon"), 4)):
        obs.append(Ob(f"{name}{kw}{extra}/n={n}", dict(spec=["ind", name, kw], n=n, extra=extra, posvol=(name == "VWAP")), NL, weight=n * 3, budget_s=300, max_paths=100000))
    # the same definitions over the buckets of a collapsing timeframe that is fed live (one raw candle per append)
    for name, kw, n in (("MACD", dict(fast_period=2, slow_period=3, signal_period=2), 10), ("ROC", dict(period=2), 8), ("OBV", dict(), 6), ("STOCH", dict(period=2, slow_period=2, smoothing_k=2), 8), ("RSI", dict(period=2), 8), ("TSI", dict(period=2, smooth_period=2), 10)) + ((("RSI", dict(period=3), 10),) if tier == "thorough" else ()):
        obs.append(Ob(f"live-T2-feed/{name}{kw}/n={n}", dict(spec=["ind", name, kw], n=n, feed="live-T2"), NL, weight=n * 3, budget_s=300 if tier == "quick" else 2400, max_paths=100000))
    # a member swapped for one of the same name that reads another input (remove_indicator + add_indicator)
    for name, kw, n in (("MACD", dict(fast_period=2, slow_period=3, signal_period=2), 7), ("ROC", dict(period=2), 5), ("TSI", dict(period=2, smooth_period=2), 6)):
        obs.append(Ob(f"swap-input/{name}{kw}/close->open/n={n}", dict(spec=["ind", name, kw], n=n, input="open"), NL, fn="run_swap", weight=n * 3, budget_s=300))
    # fed live under a candle lifespan (the head of the list is trimmed on every append once the window is full)
    for name, kw, n, L in (("MACD", dict(fast_period=2, slow_period=3, signal_period=2), 10, 5), ("ROC", dict(period=2), 8, 4), ("OBV", dict(), 7, 3), ("STOCH", dict(period=2, slow_period=2, smoothing_k=2), 9, 5), ("TSI", dict(period=2, smooth_period=2), 9, 5), ("VWAP", dict(), 6, 3)):
        obs.append(Ob(f"live under a {L}-minute lifespan/{name}{kw}/n={n}", dict(spec=["ind", name, kw], n=n, feed="live-lifespan", life_minutes=L, posvol=(name == "VWAP")), NL, weight=n * 5, budget_s=300, max_paths=100000))
    # an older candle recomputed through calculate_index between the batch part and the live part of the stream
    for name, kw, n, k in (("RSI", dict(period=2), 5, 4), ("VWAP", dict(), 6, 4), ("STOCH", dict(period=2, slow_period=2, smoothing_k=2), 8, 6), ("TSI", dict(period=2, smooth_period=2), 8, 6),
                           ("MACD", dict(fast_period=2, slow_period=3, signal_period=2), 8, 6), ("OBV", dict(), 6, 4)):
        obs.append(Ob(f"calculate_index(older) then appends/{name}{kw}/n={n}", dict(spec=["ind", name, kw], n=n, k=k, feed="cidx-then-append", posvol=(name == "VWAP")), NL, weight=n * 5, budget_s=300, max_paths=100000))
    # a fast and a slow instance of one class side by side in a Hexital: each follows its own definition
    for name, kw, sib, n in (("STOCH", dict(period=3, slow_period=2, smoothing_k=2), dict(period=2, slow_period=2, smoothing_k=2), 7), ("STOCH", dict(period=2, slow_period=2, smoothing_k=2), dict(period=2, slow_period=3, smoothing_k=1), 6),
                             ("RSI", dict(period=3), dict(period=2), 5), ("MACD", dict(fast_period=2, slow_period=3, signal_period=2), dict(fast_period=2, slow_period=4, signal_period=2), 7),
                             ("MACD", dict(fast_period=2, slow_period=3, signal_period=2), dict(fast_period=2, slow_period=3, signal_period=3), 7), ("TSI", dict(period=3, smooth_period=2), dict(period=2, smooth_period=2), 6),
                             ("ROC", dict(period=3), dict(period=2), 6), ("aroon", dict(period=3), dict(period=2), 5)):
        for feed in ("batch", "append"):
            obs.append(Ob(f"sibling/{name}{kw} next to {sib}/{feed}/n={n}", dict(spec=["ind", name, kw], sibling=sib, n=n, feed=feed), NL, fn="run_sibling", weight=n * 5, budget_s=300))
    return obs


def run(ctx, P):
    if P["spec"][1] == "ADX":
        return run_adx(ctx, P)
    run_definition(ctx, P)


def run_adx(ctx, P):
    """ADX compositionally, so that no query contains the whole rational tower: (1) the smoothed helper series
    (ATR, RMA of +DM / -DM) equal their own definitions over the raw candles (linear); (2) +DI/-DI/DX equal the
    definition over those helper readings (one division each); (3) ADX equals the RMA definition over the DX
    series. (1)+(2)+(3) compose to 'ADX equals its definition over the raw candles'."""
    kind, name, kw = P["spec"][:3]
    n = P["n"]
    p, ps = kw["period"], kw.get("period_signal") or kw["period"]
    cs = mk_candles(ctx, n)
    ind = build(name, kw, candles=cs, round_value=RV)
    ind.calculate()
    got = ind.as_list()
    ctx.observe("readings", got)
    o, h, l, c, v = series(cs)
    nm = ind.name
    helper = lambda key: [ind.read_candle(cd, key) for cd in cs]
    # (1) helpers vs definitions
    pdm, ndm = [None], [None]
    for i in range(1, n):
        up, down = h[i] - h[i - 1], l[i - 1] - l[i]
        pdm.append(up if bool((up > down) & (up > 0)) else 0)
        ndm.append(down if bool((down > up) & (down > 0)) else 0)
    a_lib, sp_lib, sn_lib = helper(f"{nm}_atr"), helper(f"{nm}_pos"), helper(f"{nm}_neg")
    if any(g["DM_Plus"] is not None for g in got) and (all(v is None for v in a_lib) or all(v is None for v in sp_lib) or all(v is None for v in sn_lib)
                                                       or all(ind.read_candle(cd, f"{nm}_data.dx") is None for cd in cs)):
        # the helper series are not where this decomposition expects them (renamed / restructured): compare the
        # readings with the definition directly instead (slow; may run out of budget, which is inconclusive, not an alarm)
        ctx.note("ADX helper series not found under their usual names: direct comparison")
        return compare_series(ctx, name, got, expected(ctx, name, kw, cs))
    compare_series(ctx, "ADX.helper.ATR", a_lib, R.atr(ctx, h, l, c, p))
    compare_series(ctx, "ADX.helper.RMA(+DM)", sp_lib, R.rma(pdm, p))
    compare_series(ctx, "ADX.helper.RMA(-DM)", sn_lib, R.rma(ndm, p))
    # (2) DI / DX over the helper readings
    dx_ref = []
    for i in range(n):
        g = got[i]
        if a_lib[i] is None or sp_lib[i] is None:
            ctx.require("ADX:none-pattern", g["DM_Plus"] is None and g["DM_Neg"] is None and g["ADX"] is None, f"index {i}: {g!r}")
            dx_ref.append(None)
            continue
        # written as (100/ATR)*RMA so that under the mul/div abstraction the terms coincide structurally with
        # the usual implementation order; any other algebraically equal form is re-decided exactly (refinement)
        pi, ni = (100 / a_lib[i]) * sp_lib[i], (100 / a_lib[i]) * sn_lib[i]
        compare_leaf(ctx, "ADX.DM_Plus", g["DM_Plus"], pi)
        compare_leaf(ctx, "ADX.DM_Neg", g["DM_Neg"], ni)
        dxi = 100 * ctx.abs(pi - ni) / (pi + ni)
        compare_leaf(ctx, "ADX.helper.DX", ind.read_candle(cs[i], f"{nm}_data.dx"), dxi)
        dx_ref.append(ind.read_candle(cs[i], f"{nm}_data.dx"))
    # (3) ADX = Wilder/RMA smoothing of the DX series
    adx_ref = R.rma(dx_ref, ps)
    for i in range(n):
        compare_leaf(ctx, "ADX.ADX", got[i]["ADX"], adx_ref[i])


META = dict(
    bounds=dict(quick="smallest legal periods (2,3; MACD 2/3/2 and swapped 3/2/3; STOCH 2/3/2 and 3/2/1 (slow != smoothing)), n = warm-up+2..4 candles (ADX, Aroon warm-up+2); MACD, ROC, OBV, STOCH, RSI, TSI also over the T2 buckets of a stream fed one raw candle per append (6-10 candles)",
                thorough="adds TSI 3, STOCH 2/3/2, ADX 2/3; n = warm-up+3..6"),
    stubs=["float arithmetic -> exact real arithmetic (nonlinear: z3 nlsat on the fresh-solver tier)", "round(x, 10) -> identity", "max/min/abs -> If-terms"],
    assumptions=["denominators are assumed non-zero here (zero cases are C09's and return documented limit values)", "volume > 0 for VWAP", "deviation must exceed 1e-6*(1+|ref|) and reproduce on the real code"],
    explanation="library readings vs independent definitions as z3 terms; warm-up index and None pattern compared exactly",
)

# families added after the seeding rounds (kept next to the original bound so that MANIFEST / evidence stay current)
META["bounds"] = dict(META["bounds"], quick=META["bounds"]["quick"] + "; added after the seeding rounds: " + 'swap-input, sibling instances, calculate_index(older)-then-append, live under a 3-5 minute lifespan')
