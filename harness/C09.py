"""C09 - calculation is total: no exception, only finite numbers, no gaps after warm-up.

Real code: every shipped indicator's calculate()/append() over well-formed streams that include flat candles,
runs of identical prices, zero volume and the flat zero-volume candles gap filling inserts.
Model: exact real arithmetic, eps rounding (so a reading can round to exactly 0 and be mistaken for missing),
every division by a symbolic value forks on denominator == 0 (-> ZeroDivisionError, as CPython), sqrt forks on a
negative argument (-> ValueError)."""
import math
from datetime import timedelta

from harness.common import *  # noqa

PROPERTY = "C09"
TOT = dict(round="eps", nl_uf=False, div="fork", sqrt="fork", timeout_ms=3000, fresh_timeout_ms=20000)
TOT_UF = dict(TOT, nl_uf=True)   # ADX: abstraction + exact refinement (see C06)
EXTRA = {"aroon": 1, "ADX": 0, "RSI": 2, "Supertrend": 2, "STOCH": 2, "TSI": 2, "KC": 2, "MACD": 2, "HMA": 2, "OBV": 3}


def obligations(tier):
    obs = []
    for kind, name, kw, w in all_specs(tier):
        bump = 1 if tier == "thorough" else 0
        n = w + 1 + EXTRA.get(name, 3) + bump
        cfg = TOT_UF if name == "ADX" else TOT
        obs.append(Ob(f"{spec_name((kind, name, kw))}/batch/n={n}", dict(spec=[kind, name, kw], n=n, mode="batch"), cfg,
                      weight=n * (20 if name in EXTRA else 1), budget_s=900 if tier == "quick" else 7200, max_paths=200000))
        if kind == "ind" and (name not in ("ADX", "aroon") or tier == "thorough"):
            nf = max(3, w + 1)
            obs.append(Ob(f"{spec_name((kind, name, kw))}/fill-gap/n={nf}", dict(spec=[kind, name, kw], n=nf, mode="fill"), cfg,
                          weight=nf * (20 if name in EXTRA else 1), budget_s=900 if tier == "quick" else 7200, max_paths=200000))
    # the two ADX periods are independent: a signal period longer / shorter than the DM period
    for kw in (dict(period=2, period_signal=3),) + ((dict(period=3, period_signal=2),) if tier == "thorough" else ()):
        nn = 4 if kw["period"] == 2 else 5
        obs.append(Ob(f"{spec_name(('ind', 'ADX', kw))}/batch/n={nn}", dict(spec=["ind", "ADX", kw], n=nn, mode="batch"), TOT_UF, weight=200, budget_s=300 if tier == "quick" else 2400, max_paths=200000))
    for name, kw, w, extra in CONFIG_VARIANTS:
        n = w + 1 + EXTRA.get(name, 3)
        obs.append(Ob(f"cfg:{spec_name(('ind', name, kw))}{extra}/batch/n={n}", dict(spec=["ind", name, kw], n=n, mode="batch", extra=extra), TOT, weight=n * 5, budget_s=300, max_paths=200000))
        obs.append(Ob(f"cfg:{spec_name(('ind', name, kw))}{extra}/fill-gap/n={max(3, w + 1)}", dict(spec=["ind", name, kw], n=max(3, w + 1), mode="fill", extra=extra), TOT, weight=n * 5, budget_s=300, max_paths=200000))
    # chained on another member's output, which starts late (SMA(5): first reading on the fifth candle, later than any candle-fed helper of period 2; a dotted dict field
    # of MACD: on the fourth): helper series fed from the candles and helper series fed from the input warm up at different times
    from hexital.indicators import INDICATOR_MAP
    for kind, name, kw, w in all_specs(tier):
        if kind != "ind" or "input_value" not in getattr(INDICATOR_MAP[name], "__dataclass_fields__", {}) or name in ("ADX", "Counter"):
            continue
        for src in (("SMA_5", "volume") if (tier == "quick" and name not in ("KC", "BBANDS", "STOCH")) else ("SMA_5", "MACD_2_3_2.signal", "volume")):
            late = {"SMA_5": 4, "volume": 0}.get(src, 3)     # 'volume': a price field that may be exactly 0 on any candle
            n = late + w + (2 if name in EXTRA else 3)
            for feed in ("batch", "append"):
                obs.append(Ob(f"chained on {src}/{spec_name((kind, name, kw))}/{feed}/n={n}", dict(spec=[kind, name, dict(kw, input_value=src)], n=n, mode="chained", feed=feed, src=src), TOT,
                              weight=n * (20 if name in EXTRA else 2), budget_s=300 if tier == "quick" else 3600, max_paths=200000))
    # floating-point lemma for the one kernel whose DOMAIN depends on the sign of a cancelling sum (sqrt of the running
    # variance): every arithmetic result carries the standard relative error, and sqrt forks on a negative argument
    for name, kw in ((("STDEV", dict(period=2)), ("STDEV", dict(period=3)), ("BBANDS", dict(period=2)), ("STDEVTHRES", dict(period=2))) if tier == "thorough" else ()):
        n = kw["period"] + 2
        obs.append(Ob(f"float-error-model/sqrt-domain/{spec_name(('ind', name, kw))}/n={n}", dict(spec=["ind", name, kw], n=n), dict(TOT, round="ideal", fp_err=True, timeout_ms=5000, fresh_timeout_ms=60000),
                      fn="run_fp_sqrt", weight=60, budget_s=600 if tier == "quick" else 3600, max_paths=20000, selfcheck=False))
    return obs


SCALES = [1.0, 0.1, 0.3, 0.7, 1.1, 100.1, 1.0 / 3.0, 1e-3, 12345.678, 0.007, 3.3, 9.99]


def run_fp_sqrt(ctx, P):
    """symbolic: calculate() under the floating-point error model - a path on which sqrt receives a negative argument
    is a candidate. concrete (replay): the candidate's candle pattern is tried under a fixed family of rescalings
    (what matters for cancellation is the bit pattern of the values, which the real-valued model cannot choose)."""
    _, _, Candle, _, _ = lib()
    spec = tuple(P["spec"][:3])
    n = P["n"]
    cs = mk_candles(ctx, n)
    if ctx.symbolic:
        ind = build_any(spec, candles=cs)
        ind.calculate()
        ctx.observe("readings", ind.as_list())
        return
    volatile = [101.37, 99.91, 103.4, 98.26, 104.73, 97.12, 102.58, 100.05]
    for s in SCALES:
        for reps in (1, 4, 12):     # also with the last candle repeated (a longer flat tail)
            for prefix in (0, 8):   # and after a stretch of volatile prices (the running sums then carry rounding residue)
                scaled = []
                for j in range(prefix):
                    v = volatile[j] * s
                    scaled.append(Candle(v, v * 1.01, v * 0.99, v, 5, timestamp=cs[0].timestamp - timedelta(minutes=prefix - j)))
                scaled += [Candle(c.open * s, c.high * s, c.low * s, c.close * s, c.volume, timestamp=c.timestamp) for c in cs]
                last = scaled[-1]
                for j in range(1, reps):
                    scaled.append(Candle(last.open, last.high, last.low, last.close, last.volume, timestamp=last.timestamp + timedelta(minutes=j)))
                ind = build_any(spec, candles=[])
                for c in scaled:
                    ind.append(c)


def finite_leaf(x):
    if x is None or isinstance(x, (bool, int)):
        return True
    if isinstance(x, float):
        if type(x) is float:
            return math.isfinite(x)
        return True      # a symbolic real: finite by construction (division by zero raises, overflow excluded by bounds)
    return hasattr(x, "t")  # SymBool


def check_values(ctx, candles, outname):
    fields_seen = {}
    for i, c in enumerate(candles):
        for store in (c.indicators, c.sub_indicators):
            for k, v in store.items():
                leaves = v.items() if isinstance(v, dict) else [(None, v)]
                for f, x in leaves:
                    ctx.require("finite-or-None", finite_leaf(x), f"candle {i} {k}.{f}: {x!r}")
        v = c.indicators.get(outname)
        leaves = v.items() if isinstance(v, dict) else [(None, v)]
        for f, x in leaves:
            if (outname.startswith("Supertrend"), f) in ((True, "long"), (True, "short")):
                continue   # by C10 exactly one of long/short is set: they alternate by design
            if x is None:
                ctx.require("no-gap-after-first-value", not fields_seen.get(f, False), f"field {f} is None at candle {i} after having had a value")
            else:
                fields_seen[f] = True


def run(ctx, P):
    spec = tuple(P["spec"][:3])
    n = P["n"]
    if P["mode"] == "chained":
        _, _, Candle, _, Hexital = lib()
        cs = mk_candles(ctx, n)
        source = {"SMA_5": lambda: [build("SMA", dict(period=5))], "volume": lambda: []}.get(P["src"], lambda: [build("MACD", dict(fast_period=2, slow_period=3, signal_period=2))])()
        ind = build_any(spec)
        if P["feed"] == "batch":
            hx = Hexital("hx", cs, source + [ind])
            hx.calculate()
        else:
            hx = Hexital("hx", [], source + [ind])
            for c in cs:
                hx.append(c)
        ctx.observe("readings", ind.as_list())
        check_values(ctx, hx.candles(), ind.name)
        return
    if P["mode"] == "batch":
        cs = mk_candles(ctx, n)
        ind = build_any(spec, candles=cs, **(P.get("extra") or {}))
        ind.calculate()
    else:
        # two real candles, a gap of two buckets (filled by the manager with flat zero-volume candles), then the rest
        _, _, Candle, _, _ = lib()
        cs = []
        for i in range(n):
            o, h, l, c, v = sym_ohlcv(ctx, i)
            minute = i + 1 if i < 2 else i + 3
            cs.append(Candle(o, h, l, c, v, timestamp=ctx.const_time(GRID0 + 60 * minute)))
        ind = build_any(spec, candles=[], timeframe="T1", timeframe_fill=True, **(P.get("extra") or {}))
        for c in cs:
            ind.append(c)
        ctx.require("gap-was-filled", len(ind.candles) == n + 2)
    ctx.observe("readings", ind.as_list())
    check_values(ctx, ind.candles, ind.name)


META = dict(
    bounds=dict(quick="n = warm-up+4 candles (value-branching indicators +1..3), smallest legal periods; batch calculate() over symbolic candles, and one-by-one appends with T1 gap filling over a stream with a two-bucket gap (fill candles flat, zero volume, neighbours symbolic); ADX also with period 2 / signal period 3 (thorough: 3 / 2)",
                thorough="n+1, periods 2 and 3, fill variant for every indicator"),
    stubs=["float arithmetic -> exact real arithmetic (IEEE cancellation outside the claim)", "round(x,nd) -> fresh r, |r-x|<=0.5*10^-nd, monotone at -100/0/100", "x/sym forks on sym==0 -> ZeroDivisionError", "sqrt forks on negative -> ValueError", "ADX: mul/div abstracted during path exploration, exact at assertions", "float-error-model obligations (STDEV/BBANDS/STDEVTHRES): every arithmetic result = exact*(1+d), |d|<=2^-52, fresh d per operation; max/min/abs/comparisons exact; a sat answer is only a candidate and is confirmed by replaying its candle pattern under 12 rescalings x 3 tail lengths x with/without a volatile prefix (thorough tier only)"],
    assumptions=["0 < low <= open,close <= high <= 1e6, 0 <= volume <= 1e9 (flat, zero-volume, repeated candles inside)", "non-finite floats can only arise from division by zero (raises) or overflow (excluded by the bounds)"],
    explanation="every feasible path of the real calculation over symbolic candles; a raising path yields a model that is replayed on the real code",
)

# families added after the seeding rounds (kept next to the original bound so that MANIFEST / evidence stay current)
META["bounds"] = dict(META["bounds"], quick=META["bounds"]["quick"] + "; added after the seeding rounds: " + 'every indicator with an input_value chained on SMA_5, MACD_2_3_2.signal and volume, batch and appended')
