"""C15 - lifespan trimming keeps exactly the window and leaves its readings unchanged.

Real code: CandleManager.trim_candles (after collapse and conversion on every append), Indicator.append/calculate/
_find_calc_index on the trimmed list. Clause 1 (window): symbolic second-resolution timestamps, the retained
timestamps after every append must be exactly those >= newest - lifespan. Clause 2 (readings): concrete 1-minute
grid, symbolic OHLCV; whenever the property's precondition holds for a schedule (the K candles a new reading may
need are still retained when it is computed; K = max(warm-up index, window parameter) + 2, deliberately generous) the retained
readings must equal those of a twin without lifespan fed the same way."""
from datetime import timedelta

from harness.common import *  # noqa
from harness.tfcommon import ref_resample, tf_secs

PROPERTY = "C15"
CFG = dict(round="uf", nl_uf=True, div="assume", sqrt="assume")
HEAVY = {"aroon", "ADX", "RSI", "Supertrend", "OBV", "KC", "STOCH", "TSI", "MACD", "HMA", "Counter", "rising", "falling", "highestbar", "lowestbar", "cross", "crossover", "crossunder"}


def obligations(tier):
    obs = []
    n1 = 4 if tier == "quick" else 5
    for tf in (None, "T1", "T5"):
        for life in (60, 150, 400):
            obs.append(Ob(f"window/tf={tf}/lifespan={life}s/n={n1}", dict(n=n1, tf=tf, life=life), dict(round="ideal", div="assume"), fn="run_window", weight=50, budget_s=900, max_paths=200000))
    # stamps with fractions of a second on a manager that does not collapse: the window is measured on the stamps as given
    obs.append(Ob("window/sub-second stamps/lifespan=10s", dict(life=10), dict(round="ideal", div="assume"), fn="run_window_subsecond", weight=20, budget_s=300))
    # lifespans of a day and more (timedelta(days=1, hours=1), timedelta(days=3)): the window is the whole duration
    for tf, life in ((None, 90000), ("H1", 90000), (None, 259200), ("D1", 259200)):
        obs.append(Ob(f"window/tf={tf}/lifespan={life}s/n={n1}", dict(n=n1, tf=tf, life=life), dict(round="ideal", div="assume"), fn="run_window", weight=50, budget_s=900, max_paths=200000))
    # the window clause over a gap-filled timeframe: the retained candles are the tail of the contiguous filled series
    for tf in (("T5",) if tier == "quick" else ("T1", "T5", "H1")):
        for life_buckets in (1, 2, 3):
            obs.append(Ob(f"window+fill/tf={tf}/lifespan={life_buckets}buckets/n={n1}", dict(n=n1, tf=tf, life=life_buckets), dict(round="ideal", div="assume"), fn="run_window_fill", weight=60, budget_s=900, max_paths=300000))
    for kind, name, kw, w in all_specs(tier):
        heavy = name in HEAVY
        if tier == "quick" and name in ("ADX", "aroon"):
            continue   # thousands of value paths per schedule: thorough tier only
        # look-back of a new reading: the warm-up index, or the window parameter where the indicator reports from the very
        # first candle although it scans `period` / `length` earlier ones (HL, highest, lowest, ...)
        K = max([w] + [v for k, v in kw.items() if k in ("period", "length", "slow_period", "fast_period") and isinstance(v, int)]) + 2
        for extra_life in ((0, 2) if not heavy else (0,)):
            life = K + extra_life
            n = life + (3 if not heavy else 2)
            if name == "ADX":
                n = life + 1
            obs.append(Ob(f"readings/{spec_name((kind, name, kw))}/lifespan={life}min/n={n}", dict(spec=[kind, name, kw], n=n, life=life, K=K), CFG, fn="run_readings",
                          weight=n * (10 if heavy else 1), budget_s=900 if tier == "quick" else 7200, max_paths=50000))
    # purely recursive indicators need ONE predecessor: a stream whose density drops after warm-up (10-second candles,
    # then 1-minute candles under a 1-minute lifespan) leaves fewer than `period` candles in the window
    recursive = [("EMA", dict(period=3)), ("RMA", dict(period=3)), ("ATR", dict(period=3)), ("RSI", dict(period=3)), ("OBV", dict()), ("VWAP", dict()),
                 ("KC", dict(period=3)), ("Supertrend", dict(period=3)), ("MACD", dict(fast_period=2, slow_period=3, signal_period=2)), ("TSI", dict(period=2, smooth_period=2)),
                 ("Counter", dict(input_value="positive"))]
    for name, kw in recursive:
        if tier == "quick":
            dense, sparse = (5, 2)
        else:
            dense, sparse = 6, 3
        obs.append(Ob(f"readings-density-drop/{spec_name(('ind', name, kw))}/dense={dense}/sparse={sparse}", dict(spec=["ind", name, kw], dense=dense, sparse=sparse), CFG, fn="run_density",
                      weight=50, budget_s=600 if tier == "quick" else 7200, max_paths=50000))
    return obs


def run_density(ctx, P):
    _, _, Candle, _, _ = lib()
    spec = tuple(P["spec"][:3])
    dense, sparse = P["dense"], P["sparse"]
    n = dense + sparse
    secs = [10 * (i + 1) for i in range(dense)] + [10 * dense + 60 * (j + 1) for j in range(sparse)]
    cs = []
    for i in range(n):
        o, h, l, c, v = sym_ohlcv(ctx, i)
        cs.append(Candle(o, h, l, c, v, timestamp=ctx.const_time(GRID0 + secs[i])))
    runs = []
    for lifespan in (timedelta(seconds=60), None):
        ind = build_any(spec, candles=[], candles_lifespan=lifespan)
        for c in clone(cs):
            ind.append(c)
        runs.append(ind)
    trimmed, twin = runs
    ctx.observe("trimmed", trimmed.as_list())
    keep = 2      # newest and its predecessor, 60 s apart
    if ctx.require("retained-count", len(trimmed.candles) == keep, f"{len(trimmed.candles)} candles retained"):
        ctx.equal("retained-readings==untrimmed-twin (one predecessor retained)", snap(trimmed.candles), snap(twin.candles[-keep:]))


def run_window(ctx, P):
    """clause 1: retained candles == {t >= newest - lifespan}, in order, after every append"""
    _, _, Candle, CandleManager, _ = lib()
    n, tf, life = P["n"], P["tf"], P["life"]
    cs, ts = mk_candles_symtime(ctx, n, lo=86400, hi=86400 * 400)
    for chunks in ([1] * n, [2] * (n // 2) + [1] * (n % 2), [n], [1, n - 1], "construct"):
        lab = f"[chunks={'+'.join(map(str, chunks)) if chunks != 'construct' else 'construct'}]"
        src = clone(cs)
        if chunks == "construct":
            m = CandleManager(src, candles_lifespan=timedelta(seconds=life), timeframe=tf)
            chunks = []
            pos = n
            got = None
        else:
            m = CandleManager([], candles_lifespan=timedelta(seconds=life), timeframe=tf)
            pos = 0
        if not chunks:
            chunks = [0]
        for c in chunks:
            if c:
                part = src[pos:pos + c]
                m.append(part if c > 1 else part[0])
                pos += c
            if tf:
                buckets = ref_resample(ctx, cs[:pos], ts[:pos], tf_secs(tf))
                full = [dict(ts=b["ts"], open=b["open"], high=b["high"], low=b["low"], close=b["close"], volume=b["volume"]) for b in buckets]
            else:
                full = [dict(ts=t, open=c2.open, high=c2.high, low=c2.low, close=c2.close, volume=c2.volume) for c2, t in zip(cs[:pos], ts[:pos])]
            newest = full[-1]["ts"]
            # candles dropped by earlier appends stay dropped: the expected window is a suffix of the stream so far,
            # and every retained collapsed candle is still the COMPLETE bucket (all six fields)
            exp = [f for f in full if bool(f["ts"] >= newest - life)]
            got = [dict(ts=ctx.sec_of(c2.timestamp), open=c2.open, high=c2.high, low=c2.low, close=c2.close, volume=c2.volume) for c2 in m.candles]
            if lab == "[chunks=" + "+".join(["1"] * n) + "]" and pos == n:
                ctx.observe("retained", got)
            if ctx.require("retained-count" + lab, len(got) == len(exp), f"after {pos} candles: kept {len(got)}, window holds {len(exp)}"):
                ctx.equal("retained==window" + lab, got, exp)


def run_window_subsecond(ctx, P):
    from datetime import datetime
    _, _, Candle, CandleManager, Hexital = lib()
    life = timedelta(seconds=P["life"])
    # 1-second spacing with a 7-cycle of fractions (so that the candle `life` seconds back has another fraction)
    fr = [350000, 800000, 120000, 600000, 50000, 930000, 470000]
    t0 = datetime(2024, 3, 4, 12, 0, 0)
    stamps = [t0 + timedelta(seconds=k, microseconds=fr[k % 7]) for k in range(26)]
    vals = [sym_ohlcv(ctx, k) for k in range(4)]
    mk = lambda k: Candle(*vals[k % 4], timestamp=stamps[k])
    for host in ("manager", "hexital"):
        h = CandleManager([], candles_lifespan=life) if host == "manager" else Hexital("hx", [], [build("SMA", dict(period=2))], candles_lifespan=life)
        for k in range(len(stamps)):
            h.append(mk(k))
            lst = h.candles if host == "manager" else h.candles()
            got = [c.timestamp for c in lst]
            exp = [t for t in stamps[: k + 1] if t >= stamps[k] - life]
            if not ctx.require(f"{host}: retained == stamps not older than newest - lifespan (after append {k + 1})", got == exp, f"kept {[t.strftime('%S.%f') for t in got]} expected {[t.strftime('%S.%f') for t in exp]}"):
                break
    ctx.observe("count", len(lst))


def run_window_fill(ctx, P):
    """clause 1 with gap filling on: after every append, retained == the candles of the filled series so far that are
    not older than newest - lifespan (each a complete bucket or a flat zero-volume filler)"""
    from harness.tfcommon import ref_fill, lib_view, ref_view
    _, _, Candle, CandleManager, _ = lib()
    n, tf = P["n"], P["tf"]
    tfs = tf_secs(tf)
    life = P["life"] * tfs
    t0 = 1704067200 - 3 * 86400
    span = 8
    cs, ts = mk_candles_symtime(ctx, n, lo=t0, hi=t0 + (span + 2) * tfs, span=span * tfs)
    for chunks in ([1] * n, [2] * (n // 2) + [1] * (n % 2), [1, n - 1], [n - 1, 1], "construct"):
        lab = f"[chunks={'+'.join(map(str, chunks)) if chunks != 'construct' else 'construct'}]"
        src = clone(cs)
        if chunks == "construct":
            m = CandleManager(src, candles_lifespan=timedelta(seconds=life), timeframe=tf, timeframe_fill=True)
            chunks, pos = [0], n
        else:
            m = CandleManager([], candles_lifespan=timedelta(seconds=life), timeframe=tf, timeframe_fill=True)
            pos = 0
        for c in chunks:
            if c:
                part = src[pos:pos + c]
                m.append(part if c > 1 else part[0])
                pos += c
            filled = ref_fill(ctx, ref_resample(ctx, cs[:pos], ts[:pos], tfs), tfs, span + 1)
            newest = filled[-1]["ts"]
            exp = [f for f in filled if bool(f["ts"] >= newest - life)]
            got = lib_view(ctx, m.candles)
            if lab == "[chunks=" + "+".join(["1"] * n) + "]" and pos == n:
                ctx.observe("retained", got)
            if ctx.require("fill:retained-count" + lab, len(got) == len(exp), f"after {pos} candles: kept {len(got)}, window of the filled series holds {len(exp)}"):
                ctx.equal("fill:retained==window-of-filled-series" + lab, got, ref_view(exp))


def run_readings(ctx, P):
    spec = tuple(P["spec"][:3])
    n, life, K = P["n"], P["life"], P["K"]
    cs = mk_candles(ctx, n)
    keep = life + 1                       # candles on a 1-minute grid inside [newest - life, newest]
    scheds = [(0, [1] * n), (keep, [1] * (n - keep)), (0, [keep, 1] + [1] * (n - keep - 1)), (0, [2] * (n // 2) + [1] * (n % 2))]
    for pre, chunks in scheds:
        if pre + sum(chunks) != n or any(c <= 0 for c in chunks):
            continue
        # property precondition: each newly added candle has min(K, all earlier) predecessors retained when computed
        ok, pos = True, pre
        for c in chunks:
            have_before_first_new = max(0, min(pos + c, keep) - c)
            if have_before_first_new < min(K, pos):
                ok = False
            pos += c
        if not ok:
            continue
        lab = f"[preload={pre},chunks={'+'.join(map(str, chunks))}]"
        runs = []
        for lifespan in (timedelta(minutes=life), None):
            src = clone(cs)
            ind = build_any(spec, candles=src[:pre], candles_lifespan=lifespan)
            ind.calculate()
            pos = pre
            for c in chunks:
                part = src[pos:pos + c]
                ind.append(part if c > 1 else part[0])
                pos += c
            runs.append(ind)
        trimmed, twin = runs
        if pre == 0 and chunks == [1] * n:
            ctx.observe("trimmed", trimmed.as_list())
        if ctx.require("retained-count" + lab, len(trimmed.candles) == min(keep, n), f"{len(trimmed.candles)} vs {min(keep, n)}"):
            tail = twin.candles[-len(trimmed.candles):]
            ctx.equal("retained-readings==untrimmed-twin" + lab, snap(trimmed.candles), snap(tail))


META = dict(
    bounds=dict(quick="window clause: N=4 symbolic timestamps, lifespans 60/150/400 s, base / T1 / T5 timeframe, appends one-by-one, in pairs, as one chunk; readings clause: every catalogue indicator and analysis wrapper except ADX and Aroon (thorough only), lifespan = K and K+2 minutes on a 1-minute grid (K = max(warm-up index, period/length) + 2), n = lifespan+3 candles, schedules: singles from empty, window preloaded then singles, window-sized chunk then singles, pairs (only where the precondition holds); plus 11 purely recursive indicators (period 3) over a stream whose density drops so that only the newest candle and its predecessor stay in a 60-second window",
                thorough="N=5; periods 2 and 3; n+1"),
    stubs=["exact real arithmetic, uninterpreted rounding and products", "datetime -> integer seconds, UTC"],
    assumptions=["K = max(warm-up index, period / length parameter) + 2 is at least the look-back any shipped indicator needs (a larger K narrows the claim, never raises an alarm)"],
    explanation="retained timestamps decided against the window definition for all timestamp patterns; retained readings term-compared with an untrimmed twin for all candle values",
)

# families added after the seeding rounds (kept next to the original bound so that MANIFEST / evidence stay current)
META["bounds"] = dict(META["bounds"], quick=META["bounds"]["quick"] + "; added after the seeding rounds: " + 'window clause over a gap-filled T5 (1-3 buckets), 25-hour and 3-day lifespans, 26 concrete sub-second stamps with a 10-second lifespan; look-back K = max(warm-up, period/length)+2')
