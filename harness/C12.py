"""C12 - gap filling yields a contiguous series of flat, zero-volume candles.

Real code executed symbolically: CandleManager.collapse_candles + fill_missing_candles (called at the end
of every collapse pass), under construction and append schedules. Symbolic: integer-second timestamps
(non-decreasing, spanning at most MAXGAP buckets because filling loops once per missing bucket), OHLCV."""
from harness.common import *  # noqa
from harness.tfcommon import *  # noqa

PROPERTY = "C12"
CFG = dict(round="ideal", nl_uf=False, div="assume", timeout_ms=4000)
MAXGAP = 5


def obligations(tier):
    # H12 and D1 with a span of 5 buckets reach gaps longer than a day
    tfs = ["S10", "T5", "H12", "D1"] if tier == "quick" else ["S5", "T1", "T5", "T45", "H1", "H4", "H12", "D1", "D2"]
    n = 3 if tier == "quick" else 4
    obs = []
    for tf in tfs:
        for sched in (["construct"], ["singles"], ["split"]):
            obs.append(Ob(f"fill/{tf}/n={n}/{sched[0]}", dict(tf=tf, n=n, sched=sched[0]), CFG, weight=n * 10,
                          budget_s=600 if tier == "quick" else 7200, max_paths=300000))
    # the fill flag given on every public carrier: Indicator(timeframe, timeframe_fill), Hexital(timeframe, timeframe_fill),
    # Hexital(timeframe_fill) whose member brings the timeframe
    for tf in (["T5"] if tier == "quick" else ["T5", "H1", "D1"]):
        obs.append(Ob(f"fill/{tf}/n={n}/api", dict(tf=tf, n=n, sched="api"), CFG, weight=n * 20, budget_s=600 if tier == "quick" else 7200, max_paths=300000))
    # gap filling together with a rolling lifespan window and multi-candle appends: the retained candles must be the
    # tail of the same contiguous filled series
    for tf in (["T5"] if tier == "quick" else ["T5", "H1"]):
        for life_buckets in (1, 3):
            obs.append(Ob(f"fill+lifespan/{tf}/lifespan={life_buckets}buckets/n={n + 1}", dict(tf=tf, n=n + 1, life=life_buckets), CFG, fn="run_lifespan", weight=n * 20,
                          budget_s=600 if tier == "quick" else 7200, max_paths=300000))
    return obs


def run_lifespan(ctx, P):
    from datetime import timedelta
    _, _, Candle, CandleManager, _ = lib()
    tf, n = P["tf"], P["n"]
    tfs = tf_secs(tf)
    life = P["life"] * tfs
    t0 = 1704067200 - 3 * 86400
    span = MAXGAP + 3        # room for: an append that overflows the window, then a gap, then two more buckets
    cs, ts = mk_candles_symtime(ctx, n, lo=t0, hi=t0 + (span + 2) * tfs, span=span * tfs)
    filled = ref_fill(ctx, ref_resample(ctx, cs, ts, tfs), tfs, span + 1)
    newest = filled[-1]["ts"]
    exp = [f for f in filled if bool(f["ts"] >= newest - life)]
    for chunks in ([1] * n, [2] * (n // 2) + [1] * (n % 2), [1, n - 1], [n - 1, 1]):
        lab = f"[chunks={'+'.join(map(str, chunks))}]"
        src = clone(cs)
        m = CandleManager([], candles_lifespan=timedelta(seconds=life), timeframe=tf, timeframe_fill=True)
        pos = 0
        for c in chunks:
            part = src[pos:pos + c]
            m.append(part if c > 1 else part[0])
            pos += c
        got = lib_view(ctx, m.candles)
        if chunks == [1] * n:
            ctx.observe("retained", got)
        for i in range(1, len(got)):
            ctx.require(f"lifespan{lab}:contiguous", got[i]["ts"] - got[i - 1]["ts"] == tfs, f"labels {i - 1},{i} not exactly one timeframe apart")
        if ctx.require(f"lifespan{lab}:count", len(got) == len(exp), f"library keeps {len(got)} candles, window of the filled series holds {len(exp)}"):
            ctx.equal(f"lifespan{lab}:retained==tail-of-filled-series", got, ref_view(exp))


def run(ctx, P):
    tf, n = P["tf"], P["n"]
    tfs = tf_secs(tf)
    t0 = 1704067200 - 3 * 86400  # concrete anchor: symbolic offsets below keep the span bounded
    cs, ts = mk_candles_symtime(ctx, n, lo=t0, hi=t0 + (MAXGAP + 2) * tfs, span=MAXGAP * tfs)
    ref = ref_resample(ctx, cs, ts, tfs)
    filled = ref_fill(ctx, ref, tfs, MAXGAP + 1)
    sched = P["sched"]
    runs = []
    if sched == "construct":
        runs.append(("construction", drive_manager(cs, tf, True, n, [])))
        runs.append(("construction+recollapse", drive_manager(cs, tf, True, n, [], 1)))
    elif sched == "singles":
        runs.append(("singles", drive_manager(cs, tf, True, 0, [1] * n)))
        runs.append(("preload1+singles", drive_manager(cs, tf, True, 1, [1] * (n - 1))))
    elif sched == "api":
        from types import SimpleNamespace
        _, _, Candle, _, Hexital = lib()
        for feed in ("construction", "singles"):
            pre = n if feed == "construction" else 0
            src = clone(cs)
            ind = build("SMA", dict(period=2), candles=src[:pre], timeframe=tf, timeframe_fill=True)
            ind.calculate()
            for c in src[pre:]:
                ind.append(c)
            runs.append((f"Indicator(timeframe,fill)/{feed}", SimpleNamespace(candles=ind.candles)))
            src = clone(cs)
            hx = Hexital("hx", src[:pre], [build("SMA", dict(period=2))], timeframe=tf, timeframe_fill=True)
            hx.calculate()
            for c in src[pre:]:
                hx.append(c)
            runs.append((f"Hexital(timeframe,fill)/{feed}", SimpleNamespace(candles=hx.candles())))
            src = clone(cs)
            hx = Hexital("hx", src[:pre], [build("SMA", dict(period=2), timeframe=tf)], timeframe_fill=True)
            hx.calculate()
            for c in src[pre:]:
                hx.append(c)
            runs.append((f"Hexital(fill)+member(timeframe)/{feed}", SimpleNamespace(candles=hx.candles(tf))))
    else:
        for k in range(1, n):
            runs.append((f"chunks[{k}+{n - k}]", drive_manager(cs, tf, True, 0, [k, n - k])))
    nofill = lib_view(ctx, drive_manager(cs, tf, False, n, []).candles)
    for label, m in runs:
        got = lib_view(ctx, m.candles)
        if label in ("construction", "singles", "Indicator(timeframe,fill)/construction"):
            ctx.observe("filled", got)
        for i in range(1, len(got)):
            ctx.require(f"{label}:contiguous", got[i]["ts"] - got[i - 1]["ts"] == tfs, f"labels {i - 1},{i} not exactly one timeframe apart")
        if not ctx.require(f"{label}:count", len(got) == len(filled), f"library {len(got)} candles, reference {len(filled)}"):
            continue
        ctx.equal(f"{label}:filled==reference", got, ref_view(filled))
        # real buckets identical to the run without filling, inserted ones flat & zero volume
        real = [g for g, f in zip(got, filled) if f["members"] > 0]
        ctx.equal(f"{label}:real-buckets==nofill-run", real, nofill)
        for i, (g, f) in enumerate(zip(got, filled)):
            if f["members"] == 0:
                pc = got[i - 1]["close"]
                ctx.require(f"{label}:inserted-flat", (g["open"] == pc) & (g["high"] == pc) & (g["low"] == pc) & (g["close"] == pc) & (g["volume"] == 0))


META = dict(
    bounds=dict(quick=f"N=3 candles, timeframes S10/T5/H12/D1 (gaps longer than a day inside), timestamps spanning at most {MAXGAP} buckets (one or two gaps of any size inside), schedules: construction (+1 recollapse), one-by-one, 1 preloaded, every two-chunk split; plus fill under a 1- or 3-bucket lifespan (span <= 8 buckets) with N=4 and single / paired / 1+3 / 3+1 appends",
                thorough=f"N=4, timeframes S5,T1,T5,T45,H1,H4,H12,D1,D2, span <= {MAXGAP} buckets"),
    stubs=["datetime -> integer seconds", "UTC", "max/min -> If-terms"],
    assumptions=["gaps longer than the span bound are outside the claim (the fill loop runs once per missing bucket)"],
    explanation="library fill vs an independent reference fill on the same symbolic stream; contiguity, inserted-candle shape, equality with the no-fill run and schedule independence decided by z3 per path",
)

# families added after the seeding rounds (kept next to the original bound so that MANIFEST / evidence stay current)
META["bounds"] = dict(META["bounds"], quick=META["bounds"]["quick"] + "; added after the seeding rounds: " + 'the fill flag through Indicator / Hexital / Hexital + member timeframe')
