"""Shared harness pieces: symbolic candle streams, indicator catalogue, deep snapshots.
Everything here works with both the symbolic and the concrete context."""
from __future__ import annotations

import copy
from datetime import datetime, timedelta

from symx.run import Ob  # noqa: F401

PRICE_HI = 10 ** 6
VOL_HI = 10 ** 9
GRID0 = 1704067200  # 2024-01-01T00:00:00 (a multiple of 86400)

FIELDS = ("open", "high", "low", "close", "volume")


def lib():
    import hexital
    from hexital import indicators
    from hexital.core.candle import Candle
    from hexital.core.candle_manager import CandleManager
    from hexital.core.hexital import Hexital
    return hexital, indicators, Candle, CandleManager, Hexital


def sym_ohlcv(ctx, i, prefix="", zero_ok=False, wellformed=True):
    """one well-formed candle's values: 0 < low <= open,close <= high <= 1e6, 0 <= volume <= 1e9
    (zero_ok: prices may be exactly 0 - for the properties that are not about price ratios)"""
    o = ctx.real(f"{prefix}o{i}", 0, PRICE_HI, lo_strict=not zero_ok)
    h = ctx.real(f"{prefix}h{i}", 0, PRICE_HI, lo_strict=not zero_ok)
    l = ctx.real(f"{prefix}l{i}", 0, PRICE_HI, lo_strict=not zero_ok)
    c = ctx.real(f"{prefix}c{i}", 0, PRICE_HI, lo_strict=not zero_ok)
    v = ctx.real(f"{prefix}v{i}", 0, VOL_HI)
    if wellformed:
        ctx.assume((l <= o) & (l <= c) & (o <= h) & (c <= h))
    return o, h, l, c, v


def mk_candles(ctx, n, step=60, start=GRID0 + 60, prefix="", zero_ok=False, wellformed=True):
    """n symbolic candles on a concrete regular time grid"""
    _, _, Candle, _, _ = lib()
    out = []
    for i in range(n):
        o, h, l, c, v = sym_ohlcv(ctx, i, prefix, zero_ok, wellformed)
        out.append(Candle(o, h, l, c, v, timestamp=ctx.const_time(start + i * step)))
    return out


def mk_candles_symtime(ctx, n, lo=0, hi=4 * 10 ** 9, span=None, prefix=""):
    """n symbolic candles with symbolic non-decreasing second-resolution timestamps"""
    _, _, Candle, _, _ = lib()
    out, ts = [], []
    prev = None
    for i in range(n):
        o, h, l, c, v = sym_ohlcv(ctx, i, prefix)
        t = ctx.symint(f"{prefix}t{i}", lo, hi)
        if prev is not None:
            ctx.assume(t >= prev)
        if span is not None and ts:
            ctx.assume(t - ts[0] <= span)
        prev = t
        ts.append(t)
        out.append(Candle(o, h, l, c, v, timestamp=to_time(ctx, t)))
    return out, ts


class Stamp(datetime):
    """the concrete twin of a symbolic timestamp: like SymDT (and like pandas.Timestamp, pendulum, ... in user code) an
    instance of a datetime SUBCLASS, so that the replay takes the same branches as the symbolic run wherever the library
    distinguishes plain datetimes from subclasses"""


def to_time(ctx, t):
    if ctx.symbolic:
        from symx.symtime import SymDT
        return SymDT(t.t)
    return Stamp(1970, 1, 1) + timedelta(seconds=int(t))


def clone(candles):
    """fresh Candle objects with the same (shared, immutable) leaf values and no readings"""
    _, _, Candle, _, _ = lib()
    return [Candle(c.open, c.high, c.low, c.close, c.volume, timestamp=c.timestamp) for c in candles]


def _cp(v):
    if isinstance(v, dict):
        return {k: _cp(x) for k, x in v.items()}
    if isinstance(v, list):
        return [_cp(x) for x in v]
    return v


def snap_candle(c, readings=True):
    d = dict(ts=c.timestamp, open=c.open, high=c.high, low=c.low, close=c.close, volume=c.volume)
    if readings:
        d["ind"] = _cp(c.indicators)
        d["sub"] = _cp(c.sub_indicators)
    return d


def snap(candles, readings=True):
    return [snap_candle(c, readings) for c in candles]


# ------------------------------------------------------------------ indicator catalogue
# name in INDICATOR_MAP -> list of (kwargs, warm-up index of the last output field)
CATALOG = {
    "SMA": [(dict(period=2), 1), (dict(period=3), 2)],
    "EMA": [(dict(period=2), 1), (dict(period=3), 2)],
    "RMA": [(dict(period=2), 1), (dict(period=3), 2)],
    "WMA": [(dict(period=2), 1), (dict(period=3), 2)],
    "VWMA": [(dict(period=2), 1), (dict(period=3), 2)],
    "HMA": [(dict(period=4), 4)],
    "TR": [(dict(), 1)],
    "ATR": [(dict(period=2), 2), (dict(period=3), 3)],
    "STDEV": [(dict(period=2), 2), (dict(period=3), 3)],
    "BBANDS": [(dict(period=2), 2), (dict(period=3), 3)],
    "KC": [(dict(period=2), 2), (dict(period=3), 3)],
    "donchian": [(dict(period=2), 1), (dict(period=3), 2)],
    "HL": [(dict(period=2), 0), (dict(period=3), 0)],
    "HLA": [(dict(), 0)],
    "Supertrend": [(dict(period=2), 2), (dict(period=3), 3)],
    "STDEVTHRES": [(dict(period=2), 2), (dict(period=3), 3)],
    "RSI": [(dict(period=2), 2), (dict(period=3), 3)],
    "MACD": [(dict(fast_period=2, slow_period=3, signal_period=2), 3)],
    "ROC": [(dict(period=2), 2), (dict(period=3), 3)],
    "STOCH": [(dict(period=2, slow_period=2, smoothing_k=2), 3), (dict(period=3, slow_period=2, smoothing_k=2), 4)],
    "TSI": [(dict(period=2, smooth_period=2), 3), (dict(period=2), 2)],
    "aroon": [(dict(period=2), 2), (dict(period=3), 3)],
    "ADX": [(dict(period=2), 3)],
    "OBV": [(dict(), 0)],
    "VWAP": [(dict(), 0)],
    "Counter": [(dict(input_value="positive"), 0)],
}

# analysis wrappers through Amorph: (map name, kwargs)
AMORPH = [
    ("positive", {}), ("negative", {}),
    ("rising", dict(indicator="close", length=2)), ("falling", dict(indicator="close", length=2)),
    ("mean_rising", dict(indicator="close", length=2)), ("mean_falling", dict(indicator="close", length=2)),
    ("highest", dict(indicator="high", length=2)), ("lowest", dict(indicator="low", length=2)),
    ("highestbar", dict(indicator="high", length=2)), ("lowestbar", dict(indicator="low", length=2)),
    ("value_range", dict(indicator="close", length=2)),
    ("cross", dict(indicator_one="close", indicator_two="open")),
    ("crossover", dict(indicator_one="close", indicator_two="open")),
    ("crossunder", dict(indicator_one="close", indicator_two="open")),
]


# configuration variants: the same indicators under unusual-but-legal settings (naming, rounding, candlestick type)
CONFIG_VARIANTS = [
    ("EMA", dict(period=2), 1, dict(round_value=0)),
    ("SMA", dict(period=2), 1, dict(round_value=2, name_suffix="r2")),
    ("BBANDS", dict(period=2), 2, dict(fullname_override="BB")),
    ("RSI", dict(period=2), 2, dict(name_suffix="x")),
    ("MACD", dict(fast_period=2, slow_period=3, signal_period=2), 3, dict(fullname_override="M.1")),   # '.' is sanitised to ','
    ("SMA", dict(period=2), 1, dict(candlestick_type="HA")),
    ("ATR", dict(period=2), 2, dict(candlestick_type="HA", name_suffix="ha")),
    ("EMA", dict(period=2), 1, dict(candlestick_type="HA", name_suffix="ha2")),
    ("STOCH", dict(period=2, slow_period=2, smoothing_k=2), 3, dict(input_value="high")),
    ("KC", dict(period=2, multiplier=1.5), 2, dict(input_value="low")),
    ("TSI", dict(period=3), 3, dict()),
    ("VWMA", dict(period=3), 2, dict(round_value=1)),
    ("BBANDS", dict(period=2), 2, dict(name_suffix="v1.5")),
    ("STOCH", dict(period=2, slow_period=2, smoothing_k=2), 3, dict(fullname_override="st.och")),
    ("OBV", dict(), 0, dict(name_suffix="v1.5")),
    ("VWAP", dict(), 0, dict(fullname_override="my.vwap")),
]


def catalog(tier, max_variants=None):
    """[(map_name, kwargs, warmup)]; quick: first variant only for the expensive ones"""
    out = []
    for name, variants in CATALOG.items():
        vs = variants if tier == "thorough" else variants[: (max_variants or 1)]
        for kw, w in vs:
            out.append((name, kw, w))
    return out


def build(name, kw, **common):
    """instantiate through the public INDICATOR_MAP (so an added / renamed class is picked up)"""
    from hexital.indicators import INDICATOR_MAP
    cls = INDICATOR_MAP[name]
    return cls(**tf_decode(kw), **tf_decode(common))


def tf_decode(kw):
    """JSON-able spelling of a TimeFrame enum member: "enum:MINUTE5" -> TimeFrame.MINUTE5 (documented as
    interchangeable with the string "T5"; lower-case strings such as "t5" are accepted too)"""
    tf = kw.get("timeframe")
    if isinstance(tf, str) and tf.startswith("enum:"):
        from hexital.utils.timeframe import TimeFrame
        kw = dict(kw, timeframe=TimeFrame[tf[5:]])
    return kw


def build_amorph(fname, kw, **common):
    from hexital.analysis import MOVEMENT_MAP, PATTERN_MAP
    from hexital.indicators import INDICATOR_MAP
    fn = (MOVEMENT_MAP | PATTERN_MAP)[fname]
    d = dict(kw)
    ind = INDICATOR_MAP["Amorph"](analysis=fn, args=d, **common)
    caller_reuses(d)
    return ind


def caller_reuses(d):
    """the caller goes on using (and editing) a dict it handed over: a configuration is captured at construction"""
    for v in list(d.values()):
        if isinstance(v, dict):
            caller_reuses(v)
    d.clear()
    d["edited_by_caller_after_construction"] = 7


def build_any(spec, **common):
    kind, name, kw = spec
    return build_amorph(name, kw, **common) if kind == "amorph" else build(name, kw, **common)


def spec_name(spec):
    kind, name, kw = spec
    return ("A:" if kind == "amorph" else "") + name + "(" + ",".join(f"{k}={v}" for k, v in kw.items()) + ")"


def all_specs(tier):
    specs = [("ind", n, kw, w) for n, kw, w in catalog(tier)]
    am = AMORPH if tier == "thorough" else AMORPH
    specs += [("amorph", n, kw, 2) for n, kw in am]
    return specs


def guarded(ctx, label, thunk):
    """run library code; an exception raised inside the library on a feasible path is a violation
    candidate labelled with its signature (type @ file:function)."""
    from symx.ctx import exc_sig  # safe: only imported in symbolic mode
    try:
        return True, thunk()
    except Exception as e:
        if not ctx.symbolic:
            raise
        sig = exc_sig(e)
        if "@?" in sig:
            raise
        ctx.fail("raises:" + sig, repr(e)[:200])
        return False, None
