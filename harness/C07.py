"""C07 - work per appended candle is constant: it does not grow with history length.

Observed from outside with sys.settrace while the real append runs: executed lines and _calculate_reading calls
inside hexital/indicators, hexital/analysis, hexital/utils and hexital/core/indicator.py (the candle manager's own
collapse/trim pass is outside the property's observation point). The last candles of the history and the appended
candle are symbolic, so the count is taken on EVERY feasible path (value-dependent branches), and the maximum over
all paths at history length n must not exceed the maximum at the first post-warm-up length n0 by more than a small
constant - for every n in the tier's range. Earlier history is concrete (the repo's own fixture)."""
import json
import os
import sys

from harness.common import *  # noqa

PROPERTY = "C07"
CFG = dict(round="uf", nl_uf=True, div="assume", sqrt="assume")
SLACK_LINES = 12          # value-dependent branches may differ by a few lines; a rescan adds >= 2 lines per extra candle
SYMBOLIC_TAIL = 2
COUNTED = ("/hexital/indicators/", "/hexital/analysis/", "/hexital/utils/", "/hexital/core/indicator.py", "/hexital/core/hexital.py")


def obligations(tier):
    obs = []
    grow = [8, 24] if tier == "quick" else [8, 24, 64, 160]
    for kind, name, kw, w in all_specs(tier):
        n0 = max(w + 4, 12)
        tail = {"ADX": 0, "Supertrend": 1}.get(name, SYMBOLIC_TAIL)   # their branch conditions involve length-dependent smoothed state
        if kind == "ind":
            # degenerate stream: a flat, zero-volume history (every helper series reads exactly 0 / stays constant) - the
            # place where 'is there a reading?' shortcuts that test truthiness start rescanning
            obs.append(Ob(f"standalone-flat-history/{spec_name((kind, name, kw))}", dict(spec=[kind, name, kw], n0=n0, grow=grow, host="indicator", tail=min(tail, 1), flat=True), CFG,
                          weight=10, budget_s=300, max_paths=20000, selfcheck=False))
        if kind == "ind" and name not in ("ADX",):
            # two candles per append: the resume logic must find the last computed candle further back than the newest
            obs.append(Ob(f"standalone-append2/{spec_name((kind, name, kw))}", dict(spec=[kind, name, kw], n0=n0, grow=grow, host="indicator", tail=0, chunk=2), CFG,
                          weight=10, budget_s=300, max_paths=20000, selfcheck=False))
        if kind == "ind" and name in ("MACD", "KC", "BBANDS", "ATR", "EMA", "RSI"):
            # the same under configurations that must not change the amount of indicator work per append
            for cname, extra in (("T1+fill", dict(timeframe="T1", timeframe_fill=True)), ("T1", dict(timeframe="T1")), ("HA", dict(candlestick_type="HA"))):
                obs.append(Ob(f"standalone-config-{cname}/{spec_name((kind, name, kw))}", dict(spec=[kind, name, kw], n0=n0, grow=grow, host="indicator", tail=0, extra=extra), CFG,
                              weight=10, budget_s=300, max_paths=20000, selfcheck=False))
        obs.append(Ob(f"standalone/{spec_name((kind, name, kw))}", dict(spec=[kind, name, kw], n0=n0, grow=grow, host="indicator", tail=tail), CFG, weight=10, budget_s=900, max_paths=20000, selfcheck=False))
    # a streak that lasts as long as the history (the counted condition holds on every candle of a flat history, or the
    # input is missing throughout): the count is carried forward, not re-counted
    for ckw in (dict(input_value="positive", count_value=False), dict(input_value="negative", count_value=False), dict(input_value="no_such_reading")):
        obs.append(Ob(f"standalone-flat-history/long-streak/Counter{ckw}", dict(spec=["ind", "Counter", ckw], n0=12, grow=grow, host="indicator", tail=1, flat=True), CFG,
                      weight=10, budget_s=300, max_paths=20000, selfcheck=False))
    # analysis wrappers over an input that has NO reading on any candle (a misspelt name, a dict field that stays None):
    # a scan that looks for `length` valid readings instead of over `length` bars walks the whole history
    for kind, name, kw, w in all_specs(tier):
        if kind == "amorph" and "indicator" in kw:
            obs.append(Ob(f"standalone-missing-input/{spec_name((kind, name, kw))}", dict(spec=[kind, name, dict(kw, indicator="no_such_reading")], n0=12, grow=grow, host="indicator", tail=0), CFG,
                          weight=5, budget_s=300, max_paths=20000, selfcheck=False))
    for trio in ([("ind", "Supertrend", dict(period=3)), ("amorph", "highest", dict(indicator="Supertrend_3.short", length=3)), ("amorph", "lowest", dict(indicator="Supertrend_3.long", length=3)),
                  ("amorph", "value_range", dict(indicator="Supertrend_3.short", length=3)), ("amorph", "rising", dict(indicator="Supertrend_3.long", length=3)), ("amorph", "mean_falling", dict(indicator="Supertrend_3.short", length=3))],
                 [("ind", "EMA", dict(period=3)), ("ind", "RSI", dict(period=3)), ("ind", "BBANDS", dict(period=3))],
                 [("ind", "MACD", dict(fast_period=2, slow_period=3, signal_period=2)), ("ind", "STOCH", dict(period=3, slow_period=2, smoothing_k=2)), ("amorph", "rising", dict(indicator="close", length=2))],
                 # members chained on another member's output, also on a field of a dict-valued reading (dotted input names)
                 [("ind", "MACD", dict(fast_period=2, slow_period=3, signal_period=2)), ("ind", "STDEV", dict(period=3, input_value="MACD_2_3_2.MACD")), ("ind", "BBANDS", dict(period=3, input_value="MACD_2_3_2.signal")),
                  ("ind", "TSI", dict(period=2, smooth_period=2, input_value="MACD_2_3_2.histogram"))],
                 [("ind", "EMA", dict(period=3)), ("ind", "STDEV", dict(period=3, input_value="EMA_3")), ("ind", "STOCH", dict(period=3, slow_period=2, smoothing_k=2, input_value="EMA_3")),
                  ("ind", "SMA", dict(period=3, input_value="EMA_3")), ("ind", "ROC", dict(period=2, input_value="EMA_3"))]):
        obs.append(Ob("hexital/" + "+".join(s[1] for s in trio), dict(trio=[list(s) for s in trio], n0=14, grow=grow, host="hexital", **({"tail": 0} if trio[0][1] == "Supertrend" else {})), CFG, weight=30, budget_s=900, max_paths=20000, selfcheck=False))
    return obs


_FIX = None


def fixture():
    global _FIX
    if _FIX is None:
        from symx.run import REPO
        _FIX = json.load(open(os.path.join(REPO, "tests", "data", "test_candles.json")))
    return _FIX


FIX_END = 300


def history(ctx, length, tail_vals, flat=False):
    """`length` candles: the fixture rows that END at row FIX_END (a longer history reaches further back, the recent
    concrete candles are the same at every length) + the shared symbolic tail"""
    _, _, Candle, _, _ = lib()
    tail = len(tail_vals)
    rows = fixture()[FIX_END - (length - tail): FIX_END]
    if flat:
        r0 = fixture()[FIX_END]
        rows = [dict(open=r0["close"], high=r0["close"], low=r0["close"], close=r0["close"], volume=0)] * (length - tail)
    out = [Candle(float(r["open"]), float(r["high"]), float(r["low"]), float(r["close"]), int(r["volume"]), timestamp=ctx.const_time(GRID0 + 60 * (i + 1))) for i, r in enumerate(rows)]
    for j, (o, h, l, c, v) in enumerate(tail_vals):
        out.append(Candle(o, h, l, c, v, timestamp=ctx.const_time(GRID0 + 60 * (length - tail + j + 1))))
    return out


class Counter:
    def __init__(self):
        self.lines = 0
        self.calcs = 0

    def trace(self, frame, event, arg):
        fn = frame.f_code.co_filename
        if "/verif/" in fn or not any(k in fn for k in COUNTED) or fn.endswith("/utils/timeframe.py"):
            return None      # utils/timeframe.py only serves the candle manager's collapse pass (outside the observation point)
        if frame.f_code.co_name == "_calculate_reading":
            self.calcs += 1
        self.lines += 1      # the call itself

        def local(fr, ev, a):
            if ev == "line":
                self.lines += 1
            return local
        return local


def measure(thunk):
    c = Counter()
    old = sys.gettrace()
    sys.settrace(c.trace)
    try:
        thunk()
    finally:
        sys.settrace(old)
    return c.lines, c.calcs


_MAX = {}


def run(ctx, P):
    """one path: measure the append at every history length; record per-length work; assert against n0"""
    _, _, Candle, _, Hexital = lib()
    lengths = [P["n0"]] + [P["n0"] + g for g in P["grow"]]
    work = []
    # the same symbolic recent candles at every length: one path = one branch pattern of the recent values,
    # and the only thing that varies between the measurements is how much history lies behind them
    ntail = P.get("tail", SYMBOLIC_TAIL)
    tail_vals = [sym_ohlcv(ctx, j, prefix="tail") for j in range(ntail)]
    chunk = P.get("chunk", 1)
    newvs = [sym_ohlcv(ctx, j, prefix="new") for j in range(chunk)]
    for n in lengths:
        hist = history(ctx, n, tail_vals, P.get("flat", False))
        news = [Candle(o, h, l, c, v, timestamp=ctx.const_time(GRID0 + 60 * (n + 1 + j))) for j, (o, h, l, c, v) in enumerate(newvs)]
        new = news[0] if chunk == 1 else news
        if P["host"] == "indicator":
            host = build_any(tuple(P["spec"]), candles=hist, **(P.get("extra") or {}))
            host.calculate()
        else:
            host = Hexital("hx", hist, [build_any(tuple(s)) for s in P["trio"]])
            host.calculate()
        work.append(measure(lambda: host.append(new)))
    ctx.observe("work(lines,calcs) per length", [list(w) for w in work])
    ctx.record([list(w) for w in work])
    if "W0" in P:
        # replay of a counterexample found by finalize(): W0/C0 = maximum over ALL paths at n0 (from the symbolic run)
        for n, (ln, cc) in zip(lengths[1:], work[1:]):
            ctx.require(LABEL_LINES, ln <= P["W0"] + SLACK_LINES, f"max over all inputs at n0={lengths[0]}: {P['W0']} lines; n={n}: {ln} lines")
            ctx.require(LABEL_CALCS, cc <= P["C0"], f"max at n0: {P['C0']} _calculate_reading calls; n={n}: {cc}")


LABEL_LINES = "lines(append at n) <= max-over-all-inputs lines(append at n0) + slack"
LABEL_CALCS = "calculations(append at n) <= max-over-all-inputs calculations(append at n0)"


def finalize(col, obd, replayer):
    """cross-path obligation: the work at every longer history, on every path, is bounded by the maximum over all
    paths (= all values of the symbolic candles) at n0 - a constant that does not depend on n."""
    if not col.records:
        return
    W0 = max(p[0][0] for _, p in col.records)
    C0 = max(p[0][1] for _, p in col.records)
    for inputs, work in col.records:
        for (ln, cc) in work[1:]:
            col.asserts += 2
            bad = [l for l, c in ((LABEL_LINES, ln > W0 + SLACK_LINES), (LABEL_CALCS, cc > C0)) if c]
            if not bad:
                col.discharged += 2
                continue
            for label in bad:
                if label in col.reproduced:
                    continue
                sc = dict(label=label, detail=f"work per length {work}, max at n0 over all paths: {W0} lines / {C0} calculations", inputs=inputs, params_extra=dict(W0=W0, C0=C0))
                ok, out, path = replayer(sc)
                if ok:
                    col.reproduced[label] = (sc, out, path)
                else:
                    col.unreproduced[label] = col.unreproduced.get(label, 0) + 1
                    col.candidates.setdefault(label, []).append(sc)


META = dict(
    bounds=dict(quick="every catalogue indicator and analysis wrapper standalone + two Hexitals of three; append measured at history length n0 (>= warm-up+4) and n0+8, n0+24; last 2 history candles (Supertrend 1, ADX 0) and the appended candle symbolic, shared by all lengths, earlier history = tests/data/test_candles.json, a second family whose earlier history is flat with zero volume, a third appending two candles per call, and a fourth under T1 / T1+fill / Heikin-Ashi configurations",
                thorough="n0+8, +24, +64, +160"),
    stubs=["work = executed lines / _calculate_reading calls in hexital/{indicators,analysis,utils}, core/indicator.py, core/hexital.py, counted by sys.settrace during the real append; candle_manager.py excluded (its collapse pass is outside the property's observation point)"],
    assumptions=["the unbounded 'for all n' is not claimed: a regression that rescans or recomputes history grows by >= 2 lines per candle and exceeds the slack (12 lines; measured variation between lengths is <= 4 lines) inside the bound", "older history is concrete: work depends on values only through branches on recent candles"],
    explanation="the solver's role is path completeness: the bound holds on every feasible branch pattern of the symbolic candles, not on sampled values",
)

# families added after the seeding rounds (kept next to the original bound so that MANIFEST / evidence stay current)
META["bounds"] = dict(META["bounds"], quick=META["bounds"]["quick"] + "; added after the seeding rounds: " + "chained members on dotted inputs, analysis wrappers over an input with no reading at all and over Supertrend's long/short fields, Counters whose streak spans the flat history, two candles per append for every indicator class")
