"""C05 - volatility, range, channel and utility indicators match their definitions.

Real code: TR, ATR, StandardDeviation, BBANDS, KC, Donchian, HighestLowest, HighLowAverage, Supertrend,
StandardDeviationThreshold, Counter (+ movement.highest/lowest they call, Managed helper series).
Oracle: refs/definitions.py. Standard deviations are compared through their squares (impl^2 == population
variance, impl >= 0), so no square root appears in a query."""
from harness.common import *  # noqa
from harness.defs import *  # noqa

PROPERTY = "C05"
SPECS = {
    "TR": [dict()],
    "ATR": [dict(period=2), dict(period=3), dict(period=4)],
    "STDEV": [dict(period=2), dict(period=3), dict(period=4)],
    "BBANDS": [dict(period=2), dict(period=3)],
    "KC": [dict(period=2), dict(period=3), dict(period=2, multiplier=1.5)],
    "donchian": [dict(period=2), dict(period=3), dict(period=4)],
    "HL": [dict(period=2), dict(period=3)],
    "HLA": [dict()],
    "Supertrend": [dict(period=2), dict(period=3), dict(period=2, multiplier=1.5)],
    "STDEVTHRES": [dict(period=2), dict(period=3), dict(period=2, multiplier=1.0)],
}
WARM = {"TR": 1, "ATR": None, "STDEV": None, "BBANDS": None, "KC": None, "donchian": -1, "HL": 0, "HLA": 0, "Supertrend": None, "STDEVTHRES": None}


def obligations(tier):
    obs = []
    for name, kws in SPECS.items():
        for j, kw in enumerate(kws):
            if tier == "quick" and j >= 2 and name not in ("KC", "Supertrend", "STDEVTHRES"):
                continue
            p = kw.get("period", 1)
            w = p if WARM[name] is None else (p - 1 if WARM[name] == -1 else WARM[name])
            extra = (2 if name == "Supertrend" else 3) if tier == "quick" else (3 if name == "Supertrend" else 4)
            n = w + 1 + extra
            obs.append(Ob(f"{name}({','.join(f'{k}={v}' for k, v in kw.items())})/n={n}", dict(spec=["ind", name, kw], n=n), DEF,
                          weight=n * (5 if name == "Supertrend" else 1), budget_s=900 if tier == "quick" else 7200, max_paths=100000))
    for name, kw, extra, n in (("BBANDS", dict(period=2), dict(fullname_override="my.BB"), 6), ("ATR", dict(period=2), dict(name_suffix="a.b"), 6), ("KC", dict(period=2), dict(name_suffix="v1.5"), 6),
                               ("STDEV", dict(period=2), dict(name_suffix="1.0"), 6), ("donchian", dict(period=2), dict(fullname_override="dc.2"), 5), ("Supertrend", dict(period=2), dict(name_suffix="s.t"), 5)):
        obs.append(Ob(f"{name}{kw}{extra}/n={n}", dict(spec=["ind", name, kw], n=n, extra=extra), DEF, weight=n * 3, budget_s=300, max_paths=100000))
    # the same definitions over the buckets of a collapsing timeframe that is fed live (one raw candle per append)
    for name, kw, n in (("TR", dict(), 6), ("ATR", dict(period=2), 8), ("KC", dict(period=2), 8), ("BBANDS", dict(period=2), 8), ("donchian", dict(period=2), 6)) + (("Supertrend", dict(period=2), 8),) + ((("ATR", dict(period=3), 10), ("Supertrend", dict(period=3), 10)) if tier == "thorough" else ()):
        obs.append(Ob(f"live-T2-feed/{name}{kw}/n={n}", dict(spec=["ind", name, kw], n=n, feed="live-T2"), DEF, weight=n * 3, budget_s=300 if tier == "quick" else 2400, max_paths=100000))
    for cv in (True, False):
        n = 4 if tier == "quick" else 6
        obs.append(Ob(f"Counter(count_value={cv})/n={n}", dict(n=n, count_value=cv), DEF, fn="run_counter", weight=n, budget_s=600))
    # a member swapped for one of the same name that reads another input (remove_indicator + add_indicator)
    for name, kw, n in (("STDEV", dict(period=2), 5), ("BBANDS", dict(period=2), 5), ("KC", dict(period=2), 6), ("STDEVTHRES", dict(period=2), 5)):
        obs.append(Ob(f"swap-input/{name}{kw}/close->open/n={n}", dict(spec=["ind", name, kw], n=n, input="open"), DEF, fn="run_swap", weight=n * 3, budget_s=300))
    # fed live under a candle lifespan (the head of the list is trimmed on every append once the window is full)
    for name, kw, n, L in (("ATR", dict(period=2), 8, 4), ("KC", dict(period=2), 8, 4), ("BBANDS", dict(period=2), 8, 4), ("Supertrend", dict(period=2), 7, 4), ("donchian", dict(period=2), 7, 3), ("STDEV", dict(period=2), 8, 4)):
        obs.append(Ob(f"live under a {L}-minute lifespan/{name}{kw}/n={n}", dict(spec=["ind", name, kw], n=n, feed="live-lifespan", life_minutes=L), DEF, weight=n * 5, budget_s=300, max_paths=100000))
    # under a candle lifespan of days (far longer than the stream): nothing is trimmed, the definitions hold unchanged
    for name, kw, n, days, hours in (("HL", dict(period=2), 5, 30, 0), ("donchian", dict(period=2), 5, 1, 0), ("ATR", dict(period=2), 6, 2, 12), ("STDEV", dict(period=2), 6, 30, 0), ("BBANDS", dict(period=2), 6, 1, 1), ("KC", dict(period=2), 6, 7, 0)):
        obs.append(Ob(f"lifespan of days/{name}{kw}/{days}d{hours}h/n={n}", dict(spec=["ind", name, kw], n=n, lifespan_days=days, lifespan_hours=hours), DEF, weight=n * 3, budget_s=300, max_paths=100000))
    # an older candle recomputed through calculate_index between the batch part and the live part of the stream
    for name, kw, n, k in (("ATR", dict(period=2), 7, 5), ("KC", dict(period=2), 7, 5), ("BBANDS", dict(period=2), 7, 5), ("Supertrend", dict(period=2), 6, 4), ("STDEVTHRES", dict(period=2), 7, 5), ("STDEV", dict(period=2), 7, 5)):
        obs.append(Ob(f"calculate_index(older) then appends/{name}{kw}/n={n}", dict(spec=["ind", name, kw], n=n, k=k, feed="cidx-then-append"), DEF, weight=n * 5, budget_s=300, max_paths=100000))
    # a fast and a slow instance of one class side by side in a Hexital: each follows its own definition
    for name, kw, sib, n in (("ATR", dict(period=3), dict(period=2), 6), ("STDEV", dict(period=3), dict(period=2), 6), ("BBANDS", dict(period=3), dict(period=2), 6), ("KC", dict(period=3), dict(period=2), 6),
                             ("KC", dict(period=2), dict(period=2, multiplier=1.5), 5), ("donchian", dict(period=3), dict(period=2), 6), ("Supertrend", dict(period=2), dict(period=2, multiplier=1.5), 4),
                             ("Supertrend", dict(period=3), dict(period=2), 5), ("STDEVTHRES", dict(period=3), dict(period=2), 6), ("STDEVTHRES", dict(period=2), dict(period=2, multiplier=1.0), 5), ("HL", dict(period=3), dict(period=2), 5)):
        for feed in ("batch", "append"):
            obs.append(Ob(f"sibling/{name}{kw} next to {sib}/{feed}/n={n}", dict(spec=["ind", name, kw], sibling=sib, n=n, feed=feed), DEF, fn="run_sibling", weight=n * 5, budget_s=300))
    return obs


def run(ctx, P):
    run_definition(ctx, P)


def run_counter(ctx, P):
    """Counter over a symbolic boolean/missing input series: length of the current run of input == count_value"""
    n = P["n"]
    cs = mk_candles(ctx, n)
    xs = []
    for i, c in enumerate(cs):
        missing = ctx.boolean(f"miss{i}")
        val = None if missing else ctx.boolean(f"flag{i}")
        xs.append(val)
        if val is not None:
            c.indicators["X"] = val
    ind = build("Counter", dict(input_value="X", count_value=P["count_value"]), candles=cs)
    ind.calculate()
    got = ind.as_list()
    ctx.observe("readings", got)
    ref = R.counter(xs, P["count_value"])
    for i, (g, r) in enumerate(zip(got, ref)):
        ctx.require("Counter", g == r, f"index {i}: library {g!r} vs definition {r!r}")


META = dict(
    bounds=dict(quick="periods {2,3}, multipliers {default, 1.5/1.0}, n = warm-up+4 candles (Supertrend +3); Counter over 4 candles with symbolic present/missing x true/false inputs; TR, ATR, KC, BBANDS, Donchian, Supertrend (period 2) also over the T2 buckets of a stream fed one raw candle per append (6-8 candles)",
                thorough="periods {2,3,4}, n = warm-up+5 (Supertrend +4); Counter over 6"),
    stubs=["float arithmetic -> exact real arithmetic", "round(x, 10) -> identity", "sqrt(v) -> s with s>=0, s*s=v", "max/min/abs -> If-terms"],
    assumptions=["STDEVTHRES flag is only decided when the move is clear of the threshold by 1e-6 relative", "deviation must exceed 1e-6*(1+|ref|) and reproduce on the real code"],
    explanation="library readings vs independent definitions as z3 terms; warm-up index and None pattern compared exactly",
)

# families added after the seeding rounds (kept next to the original bound so that MANIFEST / evidence stay current)
META["bounds"] = dict(META["bounds"], quick=META["bounds"]["quick"] + "; added after the seeding rounds: " + 'swap-input, sibling instances, calculate_index(older)-then-append, live under a 3-4 minute lifespan, lifespans of 1-30 days, STDEVTHRES no-movement tie')
