"""C04 - moving averages match their definitions and are position independent.

Real code: SMA/EMA/RMA/WMA/VWMA/HMA._calculate_reading, Indicator.calculate/_find_calc_index/prev_reading/
reading_period/candles_sum, utils.candles.*, utils.indexing.* . Oracle: refs/definitions.py (window formulas,
recurrences and seeds from the property statement). Two input forms: a price field, and a symbolic reading X
that is missing on the first s candles (late-starting input) - the definition is position independent by
construction, so equality with it is shift invariance."""
from harness.common import *  # noqa
from harness.defs import *  # noqa

PROPERTY = "C04"
MA = {"SMA": (2, 3, 4), "EMA": (2, 3, 4), "RMA": (2, 3, 4), "WMA": (2, 3, 4), "VWMA": (2, 3), "HMA": (3, 4, 7, 9)}   # HMA: floor(sqrt(p)) != round(sqrt(p)) for p = 3, 7


def obligations(tier):
    obs = []
    for name, periods in MA.items():
        ps = periods[:2] if (tier == "quick" and name != "HMA") else (periods[:3] if tier == "quick" else periods)
        for p in ps:
            w = p - 1 if name != "HMA" else p - 1 + int(p ** 0.5) - 1 + (1 if p in (3, 7) else 0)   # room for an off-by-one window
            extra = 3 if tier == "quick" else 5
            n = w + 1 + extra
            if name == "HMA" and p == 9 :
                n = w + 3
            kws = [dict(period=p)]
            if name in ("SMA", "EMA", "WMA", "RMA", "HMA"):
                kws.append(dict(period=p, input_value="high"))
            if name == "EMA":
                kws.append(dict(period=p, smoothing=3.0))
                kws.append(dict(period=p, smoothing=p + 2.5))       # a = smoothing/(period+1) > 1: still the documented recurrence
            for kw in kws:
                obs.append(Ob(f"{name}({','.join(f'{k}={v}' for k, v in kw.items())})/price/n={n}", dict(spec=["ind", name, kw], n=n, posvol=(name == "VWMA")), DEF, weight=n, budget_s=600))
            if name != "VWMA":
                for s in ((0, 1, 2, p, p + 1) if tier == "thorough" else (1, p)):
                    obs.append(Ob(f"{name}(period={p})/late-input s={s}/n={n + s}", dict(spec=["ind", name, dict(period=p)], n=n + s, late=s), DEF, weight=n + s, budget_s=600))
    # the definitions do not depend on how the indicator is named (a '.' in a suffix / override is legal: it is sanitised)
    for name, extra in (("EMA", dict(name_suffix="v1.5")), ("SMA", dict(fullname_override="my.SMA")), ("HMA", dict(name_suffix="x.y"))):
        p0 = 4 if name == "HMA" else 2
        obs.append(Ob(f"{name}(period={p0}){extra}/price/n={p0 + 4}", dict(spec=["ind", name, dict(period=p0)], n=p0 + 4, extra=extra), DEF, weight=5, budget_s=300))
    # 'recalculate() ... ideal for changing an indicator parameters midway' (Hexital.recalculate): after the period is
    # changed and the readings are recalculated, they obey the definition for the NEW period
    for name in ("SMA", "EMA", "RMA", "WMA", "VWMA"):
        obs.append(Ob(f"{name}/period 3->2 + recalculate/n=6", dict(name=name, n=6), DEF, fn="run_reparam", weight=6, budget_s=300))
        # ... also when the change comes before the indicator has warmed up (every stored reading is still None), through the
        # indicator's own recalculate(), and when the member is replaced by one of the same name reading another input
        for variant in ("before-warm-up", "indicator.recalculate", "replaced-member") if name != "VWMA" else ("before-warm-up",):
            obs.append(Ob(f"{name}/{variant} + recalculate/n=7", dict(name=name, n=7, variant=variant), DEF, fn="run_reparam", weight=7, budget_s=300))
    # the same definitions over the buckets of a collapsing timeframe that is fed live (one raw candle per append)
    for name, kw, n in (("SMA", dict(period=2), 6), ("EMA", dict(period=2), 8), ("RMA", dict(period=2), 8), ("WMA", dict(period=2), 6), ("HMA", dict(period=4), 12)):
        obs.append(Ob(f"live-T2-feed/{name}{kw}/n={n}", dict(spec=["ind", name, kw], n=n, feed="live-T2"), DEF, weight=n * 3, budget_s=300 if tier == "quick" else 2400, max_paths=100000))
    # a member swapped for one of the same name that reads another input (remove_indicator + add_indicator)
    for name, kw, n in (("SMA", dict(period=2), 5), ("EMA", dict(period=2), 5), ("WMA", dict(period=2), 5), ("HMA", dict(period=4), 8)):
        obs.append(Ob(f"swap-input/{name}{kw}/close->open/n={n}", dict(spec=["ind", name, kw], n=n, input="open"), DEF, fn="run_swap", weight=n * 3, budget_s=300))
    # 'up to the error the configured rounding can introduce': at the default round_value (4) under the eps rounding
    # model, stored reading vs definition within k half-units, for price inputs and for a late input reading of either sign
    from harness import C10
    for name, kw, w, k in (("WMA", dict(period=2), 1, 1), ("WMA", dict(period=3), 2, 1), ("SMA", dict(period=2), 1, None), ("EMA", dict(period=2), 1, 3), ("RMA", dict(period=2), 1, 3)):
        for late in (None, 1):
            obs.append(Ob(f"{name}{kw}/round_value=4 within {k or 'i+2'} roundings/{'signed late input' if late else 'price'}/n={w + 4}", dict(spec=["ind", name, kw], n=w + 4, tf=None, part="definition", k=k, late=late), C10.INV, fn="run_rounded", weight=20, budget_s=300))
    # the input may be a boolean series (the candle's positive / negative flag, a pattern or threshold flag): True is 1, False 0
    for name, kw, w in (("SMA", dict(period=2, input_value="positive"), 1), ("SMA", dict(period=3, input_value="negative"), 2), ("EMA", dict(period=2, input_value="positive"), 1), ("WMA", dict(period=2, input_value="negative"), 1)):
        obs.append(Ob(f"{name}{kw}/average of a boolean series/n={w + 4}", dict(spec=["ind", name, kw], n=w + 4, tf=None, part="bool-average"), C10.INV, fn="run_rounded", weight=20, budget_s=300, max_paths=200000))
    # a non-default round_value: every writer of readings (calculate, calculate_index single / negative / range, recalculate,
    # live appends) stores the reading rounded to THAT many decimals
    for name, kw, w in (("SMA", dict(period=2), 1), ("EMA", dict(period=2), 1), ("RMA", dict(period=2), 1), ("WMA", dict(period=2), 1), ("VWMA", dict(period=2), 1), ("HMA", dict(period=4), 4)):
        for rv in (8, 1):
            obs.append(Ob(f"{name}{kw}/round_value={rv}: every writer rounds alike", dict(spec=["ind", name, kw], n=w + 3, tf=None, part="rounded", rv=rv), C10.INV, fn="run_rounded", weight=5, budget_s=300))
    # a fast and a slow instance of one class side by side in a Hexital: each follows its own definition
    for name, kw, sib, n in (("SMA", dict(period=3), dict(period=2), 6), ("EMA", dict(period=3), dict(period=2), 6), ("EMA", dict(period=2), dict(period=2, smoothing=3.0), 5), ("RMA", dict(period=3), dict(period=2), 6),
                             ("WMA", dict(period=3), dict(period=2), 6), ("VWMA", dict(period=3), dict(period=2), 5), ("HMA", dict(period=5), dict(period=4), 9), ("HMA", dict(period=4), dict(period=4, input_value="high"), 8)):
        for feed in ("batch", "append"):
            obs.append(Ob(f"sibling/{name}{kw} next to {sib}/{feed}/n={n}", dict(spec=["ind", name, kw], sibling=sib, n=n, feed=feed, posvol=(name == "VWMA")), DEF, fn="run_sibling", weight=n * 5, budget_s=300))
    return obs


def run_reparam(ctx, P):
    _, _, Candle, _, Hexital = lib()
    name, n = P["name"], P["n"]
    cs = mk_candles(ctx, n)
    if name == "VWMA":
        for c in cs:
            ctx.assume(c.volume > 0)
    variant = P.get("variant")
    if variant == "before-warm-up":
        # period 5 on three candles: nothing but None so far; then period 2, recalculate, and the rest of the stream
        ind = build(name, dict(period=5), round_value=RV)
        src = clone(cs)
        hx = Hexital("hx", src[:3], [ind])
        hx.calculate()
        ind.period = 2
        hx.recalculate()
        for c in src[3:]:
            hx.append(c)
        got = ind.as_list()
        ctx.observe("readings", got)
        compare_series(ctx, f"{name}(period 5->2 before warm-up)", got, expected(ctx, name, dict(period=2), cs))
        return
    if variant == "indicator.recalculate":
        ind = build(name, dict(period=5), candles=clone(cs)[:4], round_value=RV)
        ind.calculate()
        ind.period = 3
        ind.recalculate()
        for c in clone(cs)[4:]:
            ind.append(c)
        got = ind.as_list()
        ctx.observe("readings", got)
        compare_series(ctx, f"{name}(period 5->3, Indicator.recalculate)", got, expected(ctx, name, dict(period=3), cs))
        return
    if variant == "replaced-member":
        first = build(name, dict(period=3), round_value=RV)
        hx = Hexital("hx", cs, [first])
        hx.calculate()
        second = build(name, dict(period=3, input_value="open"), round_value=RV)
        if not ctx.require("same generated name", second.name == first.name):
            return
        hx.add_indicator(second)          # registered under the name of the existing member: it takes its place
        hx.recalculate(second.name)
        got = hx.reading_as_list(second.name)
        ctx.observe("readings", got)
        compare_series(ctx, f"{name}(member replaced, recalculate(name))", got, expected(ctx, name, dict(period=3, input_value="open"), cs))
        return
    ind = build(name, dict(period=3), round_value=RV)
    hx = Hexital("hx", cs, [ind])
    hx.calculate()
    ind.period = 2
    hx.recalculate()
    got = ind.as_list()
    ctx.observe("readings", got)
    compare_series(ctx, f"{name}(period 3->2)", got, expected(ctx, name, dict(period=2), cs))


def run_rounded(ctx, P):
    from harness import C10
    C10.run(ctx, P)


def run(ctx, P):
    ind, cs, got, ref, x = run_definition(ctx, P)
    name = P["spec"][1]
    p = P["spec"][2]["period"]
    if name == "HMA":
        return
    if name == "EMA" and P["spec"][2].get("smoothing", 2.0) > p + 1:
        return      # a = smoothing/(period+1) > 1 extrapolates beyond its inputs by definition: only the recurrence is claimed
    inp = x if x is not None else [getattr(c, P["spec"][2].get("input_value", "close")) for c in cs]
    for i, g in enumerate(got):
        if g is None:
            continue
        if name in ("SMA", "WMA", "VWMA"):
            w = inp[i - p + 1: i + 1]
        else:
            w = [v for v in inp[: i + 1] if v is not None]
        lo, hi = ctx.min(*w), ctx.max(*w)
        eps = 1e-3 + 1e-6 * ctx.abs(hi)
        ctx.require(f"{name}:within-input-range", (g >= lo - eps) & (g <= hi + eps))


META = dict(
    bounds=dict(quick="periods {2,3} (HMA 3,4,7), n = warm-up+4 candles, input = close / high / a late-starting symbolic reading missing on the first s in {1,p} candles; EMA smoothing 2 and 3; SMA/EMA/RMA/WMA(2) and HMA(4) also over the T2 buckets of a stream fed one raw candle per append (6-12 candles); VWMA: only the window volume is assumed > 0",
                thorough="periods {2,3,4} (HMA 3,4,7,9), n = warm-up+6, s in {0,1,2,p,p+1}"),
    stubs=["float arithmetic -> exact real arithmetic", "round(x, 10) -> identity ('up to rounding')", "max/min -> If-terms"],
    assumptions=["window volume > 0 for VWMA (totality is C09's)", "a counterexample must deviate by more than 1e-6*(1+|ref|) and reproduce on the real code"],
    explanation="library readings vs independent definitions as z3 terms over symbolic candles; None pattern exact, values within margin, averages inside the range of their inputs",
)

# families added after the seeding rounds (kept next to the original bound so that MANIFEST / evidence stay current)
META["bounds"] = dict(META["bounds"], quick=META["bounds"]["quick"] + "; added after the seeding rounds: " + 'swap-input, sibling instances (fast/slow side by side), re-parameterisation variants (before warm-up, Indicator.recalculate, replaced member), round_value 4 within k half-units for price and signed late inputs, round_value 8 and 1 after every writer, EMA smoothing = period+2.5, averages of a boolean series')
