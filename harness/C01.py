"""C01 - incremental appends give exactly the batch result (schedule independence).

Real code executed symbolically: Indicator.__post_init__/append/calculate, CandleManager.append/_tasks/
collapse_candles/fill_missing_candles, Candle.merge, every indicator's _calculate_reading, Amorph + the
analysis functions. Symbolic inputs: all OHLCV values. For every feasible value-path the batch run is
compared with a family of append schedules executed in the same path (so the solver decides each
comparison once for all values of the path). Timestamps: concrete 1-minute grid (T2 collapses over it;
symbolic timestamps are C03/C12's)."""
from harness.common import *  # noqa

PROPERTY = "C01"
EQ = dict(round="uf", nl_uf=True, div="assume", sqrt="assume")
HEAVY = {"aroon": 2, "ADX": 1, "RSI": 2, "Supertrend": 2, "OBV": 2, "KC": 2, "STOCH": 2, "TSI": 2, "MACD": 2, "HMA": 2,
         "Counter": 2, "rising": 2, "falling": 2, "highestbar": 2, "lowestbar": 2, "cross": 1, "crossover": 2, "crossunder": 2}


def obligations(tier):
    obs = []
    for kind, name, kw, w in all_specs(tier):
        extra = HEAVY.get(name, 3) + (1 if tier == "thorough" else 0)
        n = w + extra
        cfgs = [(None, False, n)]
        if name not in HEAVY or tier == "thorough":
            nt = 2 * (w + 2) if name not in HEAVY else 2 * (w + 1) + 1
            cfgs += [("T2", False, nt), ("T2", True, nt)]
        for tf, fill, nn in cfgs:
            obs.append(Ob(f"{spec_name((kind, name, kw))}/tf={tf}/fill={fill}/n={nn}",
                          dict(spec=[kind, name, kw], n=nn, tf=tf, fill=fill, sched=("all" if tier == "thorough" and nn <= 6 else "family")), EQ,
                          weight=(10 if name in HEAVY else 1) * nn, budget_s=240 if tier == "quick" else 3600,
                          max_paths=20000 if tier == "quick" else 400000))
    # the same property under unusual-but-legal configurations (rounding, naming, candlestick type, other inputs)
    for name, kw, w, extra in CONFIG_VARIANTS:
        n = w + (2 if name in HEAVY else 3)
        for tf, fill, nn in ((None, False, n), ("T2", True, 2 * (w + 1) + 1)) + ((("T2", False, 2 * (w + 2)),) if "candlestick_type" in extra else ()):
            # (candlestick types: also an even number of candles, so that the stream stops right after a merge into the open bucket)
            if tf and name in HEAVY and tier == "quick":
                continue
            obs.append(Ob(f"cfg:{spec_name(('ind', name, kw))}{extra}/tf={tf}/fill={fill}/n={nn}", dict(spec=["ind", name, kw], n=nn, tf=tf, fill=fill, sched="family", extra=extra), EQ,
                          weight=(10 if name in HEAVY else 1) * nn, budget_s=240 if tier == "quick" else 3600, max_paths=20000 if tier == "quick" else 400000))
    # a 40-second grid: three raw candles per T2 bucket, so a bucket is merged into more than once before it closes
    for kind, name, kw, w in all_specs(tier):
        if name in HEAVY or (kind == "amorph" and tier == "quick" and name not in ("positive", "highest", "mean_rising")):
            continue
        nn = 3 * (w + 1) + 2
        for fill in ((False,) if tier == "quick" else (False, True)):
            obs.append(Ob(f"{spec_name((kind, name, kw))}/tf=T2/fill={fill}/step=40s/n={nn}", dict(spec=[kind, name, kw], n=nn, tf="T2", fill=fill, sched="family", step=40), EQ,
                          weight=nn, budget_s=240 if tier == "quick" else 3600, max_paths=20000 if tier == "quick" else 400000))
    # the value-branching recursive indicators over a collapsing timeframe fed live, long enough for three closed buckets
    # with readings and a forming one: state carried on the indicator OBJECT (instead of on the candles) goes stale when the
    # forming bucket is recomputed after each merge
    for kind, name, kw, w in all_specs(tier):
        if name not in ("Supertrend", "RSI", "OBV", "KC", "MACD", "TSI", "STOCH", "Counter", "HMA") or (tier == "quick" and kw.get("period", 2) > 2):
            continue
        nn = 2 * (w + 3) if name != "RSI" else 2 * (w + 2)     # RSI: three-way value branching per reading
        obs.append(Ob(f"live-long/{spec_name((kind, name, kw))}/tf=T2/n={nn}", dict(spec=[kind, name, kw], n=nn, tf="T2", fill=False, sched="family"), EQ,
                      weight=20 * nn, budget_s=240 if tier == "quick" else 3600, max_paths=20000 if tier == "quick" else 400000))
    # candlestick patterns wrapped as indicators, with and without a lookback (they answer False before the 11th candle)
    for pname in (("doji",) if tier == "quick" else ("doji", "dojistar", "hammer", "inv_hammer")):
        for kw in (dict(lookback=2), dict(), dict(lookback=1), dict(lookback=4)):
            obs.append(Ob(f"pattern-wrapper/{pname}{kw}/n=13", dict(spec=["amorph", pname, kw], n=13, tf=None, fill=False, sched="family"), EQ,
                          weight=300, budget_s=240 if tier == "quick" else 3600, max_paths=20000 if tier == "quick" else 400000))
    # windows longer than the whole stream (the shipped defaults are 100 and 200 candles): every reading is computed
    # over 'all candles so far', in batch as well as live
    longw = [("ind", "HL", dict(period=7)), ("ind", "donchian", dict(period=7)), ("ind", "SMA", dict(period=7)), ("ind", "aroon", dict(period=7)),
             ("amorph", "highest", dict(indicator="high", length=7)), ("amorph", "lowest", dict(indicator="low", length=7)), ("amorph", "value_range", dict(indicator="close", length=7)),
             ("amorph", "highestbar", dict(indicator="high", length=7)), ("amorph", "lowestbar", dict(indicator="low", length=7)),
             ("amorph", "rising", dict(indicator="close", length=7)), ("amorph", "mean_falling", dict(indicator="close", length=7))]
    for kind, name, kw in longw:
        for nn in ((4,) if tier == "quick" else (4, 6)):
            for tf in (None, "T2"):
                if tf and (tier == "quick" and name not in ("HL", "highest", "value_range")):
                    continue
                m = nn if tf is None else 2 * nn - 1
                if name in ("highestbar", "lowestbar", "rising", "aroon") and tf:
                    continue
                obs.append(Ob(f"long-window/{spec_name((kind, name, kw))}/tf={tf}/n={m}", dict(spec=[kind, name, kw], n=m, tf=tf, fill=False, sched="family"), EQ,
                              weight=10 * m, budget_s=240 if tier == "quick" else 3600, max_paths=20000 if tier == "quick" else 400000))
    # one Hexital, several timeframes (base + T2 + T3, also with a Hexital-level timeframe), fed Candle objects: every
    # timeframe's candles - OHLCV and the complete reading dicts - and every indexed Hexital.reading equal the batch run
    for hextf in (None, "T2"):
        nn = 7 if tier == "quick" else 9
        obs.append(Ob(f"hexital-multi-timeframe/hexital-tf={hextf}/n={nn}", dict(n=nn, hextf=hextf), EQ, fn="run_multi_tf", weight=40, budget_s=600))
        obs.append(Ob(f"hexital-multi-timeframe/hexital-tf={hextf}/Heikin-Ashi/n={nn}", dict(n=nn, hextf=hextf, ha=True), EQ, fn="run_multi_tf", weight=40, budget_s=600))
    # the recorded finding (known_findings.json): a member timeframe that is NOT a multiple of the Hexital's own timeframe is
    # seeded from the already collapsed base candles at construction, while appended candles reach it raw
    obs.append(Ob("hexital-multi-timeframe/hexital-tf=T2/member-tf=T3 (not a multiple)/n=7", dict(n=7, hextf="T2", other="T3"), EQ, fn="run_multi_tf", weight=40, budget_s=600, selfcheck=False))
    # indicators chained inside a Hexital (one reads the other's output): batch vs every append schedule
    for n in ((5,) if tier == "quick" else (5, 6)):
        obs.append(Ob(f"hexital-chain/n={n}", dict(n=n), EQ, fn="run_chain", weight=20, budget_s=600))
    return obs


def run_chain(ctx, P):
    _, _, Candle, _, Hexital = lib()
    n = P["n"]
    cs = mk_candles(ctx, n)

    def members():
        return [build("EMA", dict(period=2)), build("SMA", dict(period=2, input_value="EMA_2")), build("MACD", dict(fast_period=2, slow_period=3, signal_period=2)),
                build("ROC", dict(period=2, input_value="MACD_2_3_2.MACD")), build_amorph("positive", {}), build("Counter", dict(input_value="positive")),
                build_amorph("crossover", dict(indicator_one="EMA_2", indicator_two="SMA_2"))]
    batch = Hexital("b", clone(cs), members())
    batch.calculate()
    a = snap(batch.candles())
    ctx.observe("batch", a)
    for k, chunks in schedules(n, "family"):
        src = clone(cs)
        inc = Hexital("i", src[:k], members())
        if k:
            inc.calculate()
        pos = k
        for c in chunks:
            part = src[pos:pos + c]
            inc.append(part if c > 1 else part[0])
            pos += c
        ctx.equal(f"chained incremental==batch[preload={k},chunks={'+'.join(map(str, chunks))}]", a, snap(inc.candles()))


def run_multi_tf(ctx, P):
    _, _, Candle, _, Hexital = lib()
    n = P["n"]
    cs = mk_candles(ctx, n)
    level = dict(timeframe=P["hextf"]) if P.get("hextf") else {}
    if P.get("ha"):
        level["candlestick_type"] = "HA"

    def members():
        other = P.get("other") or ("T6" if P.get("hextf") else "T2")        # T4 / T6: multiples of a Hexital-level T2 (nested buckets)
        return [build("EMA", dict(period=2)), build("SMA", dict(period=2), timeframe=other), build("WMA", dict(period=2), timeframe="T4"), build("TR", dict(), timeframe=other)]

    def full(hx):
        out = {tf: snap(lst) for tf, lst in hx.get_candles().items()}
        names = list(hx.indicators)
        for nm in names:
            m = len(hx.indicator(nm).candles)
            out["reading:" + nm] = [hx.reading(nm, index=i) for i in range(-m, m)]
        return out
    batch = Hexital("b", clone(cs), members(), **level)
    batch.calculate()
    a = full(batch)
    ctx.observe("batch", a)
    for k, chunks in schedules(n, "family"):
        src = clone(cs)
        inc = Hexital("i", src[:k], members(), **level)
        if k:
            inc.calculate()
        pos = k
        for c in chunks:
            part = src[pos:pos + c]
            inc.append(part if c > 1 else part[0])
            pos += c
        ctx.equal(f"multi-timeframe incremental==batch[preload={k},chunks={'+'.join(map(str, chunks))}]", a, full(inc))


def common_kw(P):
    kw = dict(P.get("extra") or {})
    if P.get("tf"):
        kw["timeframe"] = P["tf"]
        kw["timeframe_fill"] = bool(P.get("fill"))
    return kw


def schedules(n, mode):
    """(preload_count, [chunk sizes]) - the append histories compared with the batch run"""
    out = [(0, [1] * n), (0, [n])]
    if mode == "all":
        # every composition of n into chunks, started empty or with the first chunk preloaded
        for mask in range(1 << (n - 1)):
            chunks, cur = [], 1
            for i in range(n - 1):
                if mask >> i & 1:
                    chunks.append(cur)
                    cur = 1
                else:
                    cur += 1
            chunks.append(cur)
            out.append((0, chunks))
            if len(chunks) > 1:
                out.append((chunks[0], chunks[1:]))
    else:
        for k in range(1, n):
            out.append((k, [1] * (n - k)))      # k candles at construction, then one by one
            out.append((0, [k, n - k]))         # started empty, two chunks split at k
        if n >= 3:
            out.append((1, [n - 1]))
    seen, uniq = set(), []
    for k, ch in out:
        key = (k, tuple(ch))
        if key not in seen:
            seen.add(key)
            uniq.append((k, ch))
    return uniq


def make_stream(ctx, P):
    """the candle stream of an obligation: the grid step, the start offset and - with gap filling on - a hole of two buckets"""
    n = P["n"]
    step = P.get("step", 60)
    cs = mk_candles(ctx, n, step=step, start=GRID0 + step * P.get("start", 1))
    if P.get("fill") and step != 60:
        for i, c in enumerate(cs):
            if i >= 2:
                c.timestamp = ctx.const_time(GRID0 + step * (P.get("start", 1) + i) + 240)     # a hole of two whole T2 buckets
    elif P.get("fill"):
        # with gap filling on, the stream has a hole of two whole buckets after its second candle, so that the
        # manager really inserts candles - at construction in the batch run, in the middle of the history when appending
        for i, c in enumerate(cs):
            if i >= 2:
                c.timestamp = ctx.const_time(GRID0 + 60 * (P.get("start", 1) + i + 4))
    return cs


def run(ctx, P):
    spec = tuple(P["spec"][:3])
    n = P["n"]
    cs = make_stream(ctx, P)
    batch = build_any(spec, candles=clone(cs), **common_kw(P))
    batch.calculate()
    a = snap(batch.candles)
    ctx.observe("batch", a)
    for k, chunks in schedules(n, P.get("sched", "family")):
        src = clone(cs)
        inc = build_any(spec, candles=src[:k], **common_kw(P))
        if k:
            inc.calculate()
        pos = k
        for c in chunks:
            part = src[pos:pos + c]
            inc.append(part if c > 1 else part[0])
            pos += c
        ctx.equal(f"incremental==batch[preload={k},chunks={'+'.join(map(str, chunks))}]", a, snap(inc.candles))


META = dict(
    bounds=dict(
        quick="stream length n = warm-up+3 (value-branching indicators warm-up+1..2), smallest legal periods (2; MACD 2/3/2; HMA 4; STOCH 2/2/2); timeframes none, and T2 with fill off/on for the non-branching indicators, on a 1-minute grid; schedules: one-by-one from empty, one chunk, k candles at construction then one-by-one (all k), two chunks split at every k, 1 preloaded + rest as a chunk; plus 11 configuration variants (round_value 0/1/2, name_suffix, fullname_override with a '.', Heikin-Ashi, other input fields) and a Hexital of 7 chained members (SMA of EMA, ROC of MACD.MACD, Counter of positive, crossover of two indicators)",
        thorough="n = warm-up+4 (branching: +2..3), periods 2 and 3, T2 +/- fill for every indicator, all 2^(n-1) chunk compositions x {empty, first chunk preloaded} when n<=6",
    ),
    stubs=["float arithmetic -> exact real arithmetic", "round(x,nd) -> uninterpreted rnd_nd(x) with |rnd-x|<=0.5*10^-nd", "symbolic*symbolic and /symbolic -> uninterpreted mul/div (equal under every interpretation => equal under the real one)", "max/min/abs -> If-terms", "sqrt -> uninterpreted with s>=0, s*s=x"],
    assumptions=["IEEE rounding outside the claim except where both sides build the identical term (counted as structural)", "symbolic timestamps are C03/C12's job: here the grid is concrete"],
    explanation="bounded symbolic model checking of the real classes: every feasible path of batch+incremental runs over symbolic candles; equality of every stored leaf decided by z3 or by term identity",
)

# families added after the seeding rounds (kept next to the original bound so that MANIFEST / evidence stay current)
META["bounds"] = dict(META["bounds"], quick=META["bounds"]["quick"] + "; added after the seeding rounds: " + '40-second grid; live-long T2 feeds of the recursive value-branching indicators; windows longer than the stream; doji wrapper with lookback None/1/2/4 over 13 candles; a Hexital with base + two further timeframes (7 candles, also Hexital-level T2, also Heikin-Ashi) fed Candle objects; Heikin-Ashi configurations also over an even number of candles')
