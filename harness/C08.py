"""C08 - indicators inside a Hexital behave exactly like the same indicators standalone.

Real code: Hexital.__init__/_validate_indicators/_build_indicator/append/calculate/candles/get_candles,
Indicator.candle_manager setter, Indicator.settings / Amorph.settings round trip, CandleManager per timeframe.
Each member (object / dict / settings-dict form; own timeframe none/T2/T3; Hexital-level timeframe, fill,
Heikin-Ashi, lifespan) is compared leaf-by-leaf with a standalone twin of the same effective configuration."""
from datetime import timedelta

from harness.common import *  # noqa

PROPERTY = "C08"
CFG = dict(round="uf", nl_uf=True, div="assume", sqrt="assume")
HEAVY = {"aroon", "ADX", "RSI", "Supertrend", "OBV", "KC", "STOCH", "TSI", "MACD", "HMA", "Counter", "rising", "falling", "highestbar", "lowestbar", "cross", "crossover", "crossunder"}
FORMS = ("object", "dict", "settings")
LEVELS = {
    "plain": {},
    "tf": dict(timeframe="T2"),
    "tf+fill": dict(timeframe="T2", timeframe_fill=True),
    "HA": dict(candlestick_type="HA"),
    "lifespan": dict(candles_lifespan=timedelta(minutes=3)),
    "fill": dict(timeframe_fill=True),        # Hexital-level fill, members bring their own timeframe; the stream has a hole
    "tf-nested": dict(timeframe="T2"),        # Hexital collapses to T2 and a member asks for T4 on top: its twin is the standalone T4 indicator on the raw stream
}


def obligations(tier):
    obs = []
    specs = all_specs(tier)
    for idx, (kind, name, kw, w) in enumerate(specs):
        heavy = name in HEAVY
        forms = FORMS if (tier == "thorough" or not heavy) else (FORMS[idx % 3],)
        for form in forms:
            levels = [l for l in LEVELS if l != "tf-nested"] if tier == "thorough" else (["plain", list(LEVELS)[1 + idx % 5]] if not heavy else ["plain"])
            if not heavy and form == "object" and w <= (2 if tier == "quick" else 3) and name not in ("VWAP", "VWMA", "ATR"):   # (volume products over merged buckets: solver-bound)
                levels.append("tf-nested")
            for level in levels:
                n = w + (2 if heavy else 3) + (1 if tier == "thorough" else 0)
                if name == "ADX" and tier == "quick":
                    n = w + 1
                if LEVELS[level].get("timeframe"):
                    n = min(2 * n, n + 4)
                if level == "tf-nested":
                    n = 4 * (w + 2) + 1
                obs.append(Ob(f"{spec_name((kind, name, kw))}/{form}/{level}/n={n}", dict(spec=[kind, name, kw], form=form, level=level, n=n, mtf=(None if (heavy and tier == "quick") else [None, "T2", "T3", None, "t2", "T3"][idx % 6])), CFG,
                              weight=n * (10 if heavy else 1), budget_s=900 if tier == "quick" else 7200, max_paths=100000))
        # the members registered AFTER construction (add_indicator on a Hexital that already holds its candles and its settings)
        if not heavy and idx % 3 == 1:
            for level in (("plain", "lifespan", "HA", "tf") if tier == "quick" else ("plain", "lifespan", "HA", "tf", "tf+fill", "fill")):
                n = w + 3 + (2 if level == "lifespan" else 0)
                if LEVELS[level].get("timeframe"):
                    n = min(2 * n, n + 4)
                obs.append(Ob(f"{spec_name((kind, name, kw))}/{FORMS[idx % 3]}/{level}/registered after construction/n={n}", dict(spec=[kind, name, kw], form=FORMS[idx % 3], level=level, n=n, mtf="T2", late=True), CFG,
                              weight=n, budget_s=900 if tier == "quick" else 7200, max_paths=100000))
        # a further member on the partner's / third member's timeframe is registered and removed again before the last
        # append: the remaining members must not notice (they keep being fed on the timeframe the guest shared)
        if (not heavy and idx % 3 == 0) or (tier == "thorough" and name not in ("ADX", "aroon")):
            n = w + (2 if heavy else 3) + 1
            for gtf in ("T2", "T3"):
                obs.append(Ob(f"{spec_name((kind, name, kw))}/object/plain/guest on {gtf} removed/n={n}", dict(spec=[kind, name, kw], form="object", level="plain", n=n, mtf="T3", guest=gtf), CFG,
                              weight=n * (10 if heavy else 1), budget_s=900 if tier == "quick" else 7200, max_paths=100000))
    return obs


def as_form(spec, form, **extra):
    """the member in object / dict / settings-dict form"""
    kind, name, kw = spec
    if form == "object":
        return build_any(spec, **extra)
    if form == "settings":
        return build_any(spec, **extra).settings
    if kind == "amorph":
        d = dict(analysis=name, **extra)
        if kw:
            d["args"] = dict(kw)
        return d
    d = dict(kw)
    d.update(extra)
    d["indicator"] = name
    return d


def project(member_snap, twin_snap):
    """members that share a timeframe share candles: keep only the entries the standalone twin also writes
    (its own reading and helper series); entries of other members are C13's concern"""
    if len(member_snap) != len(twin_snap):
        return member_snap
    out = []
    for m, t in zip(member_snap, twin_snap):
        d = dict(m)
        d["ind"] = {k: v for k, v in m["ind"].items() if k in t["ind"]}
        d["sub"] = {k: v for k, v in m["sub"].items() if k in t["sub"]}
        out.append(d)
    return out


def run(ctx, P):
    _, _, Candle, _, Hexital = lib()
    spec = tuple(P["spec"][:3])
    n = P["n"]
    level = dict(LEVELS[P["level"]])
    cs = mk_candles(ctx, n)
    if P["level"] == "fill":
        # a hole of three whole T2 buckets after the second candle
        for i, c in enumerate(cs):
            if i >= 2:
                c.timestamp = ctx.const_time(GRID0 + 60 * (i + 1 + 7))
    base = [dict(ts=ctx.sec_of(c.timestamp), open=c.open, high=c.high, low=c.low, close=c.close, volume=c.volume) for c in cs]
    # members: the indicator under test (no own timeframe), a partner on its own timeframe, and the same class again on a timeframe
    mtf = P.get("mtf") if not level.get("timeframe") else None
    if P["level"] == "tf-nested":
        mtf = "T4"
    if P["level"] == "fill" and mtf is None:
        mtf = "T3"
    members = [(spec, {}), (("ind", "WMA", dict(period=4)), dict(timeframe="T2") if not level.get("timeframe") else {})]
    if mtf:
        members.append((spec, dict(timeframe=mtf)))
    guest = P.get("guest")
    for pre, chunks in ((2, [1] * (n - 2)), (0, [n - 1, 1]), (n, [])):
        if guest and not chunks:
            continue
        lab = f"[preload={pre},chunks={'+'.join(map(str, chunks))}]"
        src = clone(cs)
        handed = [as_form(s, P["form"] if j == 0 else FORMS[j % 3], **e) for j, (s, e) in enumerate(members)]
        if guest:
            # (the guest's NAME is a proper prefix of the name of the member whose timeframe it shares: 'WMA_4_T' next to 'WMA_4_T2', as SMA_5 is of SMA_50)
            host_j = 1 if guest == "T2" else 2          # the member that lives on the guest's timeframe
            first_name = build_any(members[host_j][0], **members[host_j][1]).name
            handed.append(build_any(("ind", "SMA", dict(period=2)), timeframe=guest, fullname_override=first_name[:-1]))
        if P.get("late"):
            hx = Hexital("hx", src[:pre], None if pre % 2 else [], **level)
            for h in handed:
                hx.add_indicator(h)
        else:
            hx = Hexital("hx", src[:pre], handed, **level)
        for h in handed:
            if isinstance(h, dict):
                caller_reuses(h)
        hx.calculate()
        pos = pre
        for k, c in enumerate(chunks):
            if guest and k == len(chunks) - 1:
                # maintenance aimed at the guest alone, then it leaves: the members' readings stay what they were
                stay = [nm for nm in hx.indicators if nm != handed[-1].name]
                was = {nm: hx.reading_as_list(nm) for nm in stay}
                hx.recalculate(handed[-1].name)
                ctx.equal("members untouched by recalculate(guest)" + lab, {nm: hx.reading_as_list(nm) for nm in stay}, was)
                hx.purge(handed[-1].name)
                hx.calculate(handed[-1].name)
                ctx.equal("members untouched by purge(guest) + calculate(guest)" + lab, {nm: hx.reading_as_list(nm) for nm in stay}, was)
                hx.remove_indicator(handed[-1].name)
                ctx.equal("members untouched by remove_indicator(guest)" + lab, {nm: hx.reading_as_list(nm) for nm in stay}, was)
            part = src[pos:pos + c]
            hx.append(part if c > 1 else part[0])
            pos += c
        names = list(hx.indicators)
        if not ctx.require("member-count" + lab, len(names) == len(members), f"{names}"):
            continue
        allowed = {}
        for j, (s, e) in enumerate(members):
            m = hx.indicator(names[j])
            if not level.get("timeframe"):
                # a member is registered under the name its configuration gives it standalone
                natural = build_any(s, **e).name
                ctx.require(f"member{j}-name==standalone-name" + lab, m.name == natural, f"{m.name!r} vs {natural!r}")
                if s[0] == "amorph":
                    from hexital.analysis import MOVEMENT_MAP, PATTERN_MAP
                    from hexital.indicators import INDICATOR_MAP
                    kwform = INDICATOR_MAP["Amorph"](analysis=(MOVEMENT_MAP | PATTERN_MAP)[s[1]], **dict(s[2]), **e).name
                    ctx.require(f"member{j}-name==keyword-form-name" + lab, m.name == kwform, f"{m.name!r} vs {kwform!r}")
            # standalone twin: same effective configuration, same name, fed the same stream the same way
            src2 = clone(cs)
            twin = build_any(s, candles=src2[:pre], **{**level, **e, "fullname_override": m.name})
            twin.calculate()
            pos = pre
            for c in chunks:
                part = src2[pos:pos + c]
                twin.append(part if c > 1 else part[0])
                pos += c
            if j == 0 and pre == 2:
                ctx.observe("member", snap(m.candles))
            ctx.equal(f"member{j}==standalone" + lab, project(snap(m.candles), snap(twin.candles)), snap(twin.candles))
            ctx.equal(f"member{j}.as_list==standalone" + lab, m.as_list(), twin.as_list())
            ctx.equal(f"reading_as_list{j}" + lab, hx.reading_as_list(twin.name), twin.as_list())
            allowed.setdefault(id(m.candles), [m.candles, set()])[1].update(k for c in twin.candles for k in list(c.indicators) + list(c.sub_indicators))
        # members that share a timeframe share candles - but nothing may be written on a candle list by a member of ANOTHER one
        for lst, keys in allowed.values():
            foreign = {k for c in lst for k in list(c.indicators) + list(c.sub_indicators)} - keys
            ctx.require("only the members of a timeframe write on its candles" + lab, not foreign, f"foreign entries {sorted(foreign)}")
        if not level:
            got = [dict(ts=ctx.sec_of(c.timestamp), open=c.open, high=c.high, low=c.low, close=c.close, volume=c.volume) for c in hx.candles()]
            ctx.equal("base-candles-keep-OHLCV" + lab, got, base)


META = dict(
    bounds=dict(quick="every catalogue indicator and analysis wrapper as first member (object/dict/settings form), partner WMA(4) on T2, a third member = same class on T2/T3; Hexital-level plain / T2 / T2+fill / HA / 3-minute lifespan / fill-only over a stream with a three-bucket hole; n = warm-up+3..4 candles; schedules: 2 preloaded + singles, chunk + single from empty, all at construction; third-member timeframe also spelled in lower case; a member on T4 nested in a Hexital on T2 (non-branching indicators, 9-17 candles); every dict handed over is edited by the caller after construction",
                thorough="all three forms x all five Hexital-level settings for every indicator, n+1"),
    stubs=["exact real arithmetic, uninterpreted rounding and products"],
    assumptions=["Hexital-level timeframe is combined only with members that have no timeframe of their own (effective configuration = the Hexital's)"],
    explanation="each member's candles and readings are term-compared with a standalone twin for all candle values on every path",
)

# families added after the seeding rounds (kept next to the original bound so that MANIFEST / evidence stay current)
META["bounds"] = dict(META["bounds"], quick=META["bounds"]["quick"] + "; added after the seeding rounds: " + "a guest member (name a proper prefix of its co-tenant's) recalculated / purged / removed before the last append; members registered after construction; only the members of a timeframe write on its candles")
